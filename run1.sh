#!/bin/bash
# dev helper: run one driver test in-process and pretty-print. usage: run1.sh <test path> <prop> <cases> [extra env...]
export CARGO_NET_OFFLINE=true CARGO_TARGET_DIR=/verif/target
cargo test --manifest-path /repo/Cargo.toml --features verif --no-run --offline 2>&1 | grep -E "^(warning: unused|error|warning: `ruler`)" -A6 | head -60
T=$(ls -t /verif/target/debug/deps/ruler-* | grep -v '\.d$' | head -1)
VERIF_CASES=${3:-100} VERIF_PROP=$2 $T --exact verif::drivers::$1 --ignored --nocapture 2>&1 | python3 -c "
import sys,json
n=0
for l in sys.stdin:
    l=l.strip()
    if not l.startswith('{'): print(l); continue
    d=json.loads(l)
    if d['type']=='violation':
        n+=1
        if n<=int('${MAXV:-6}'):
            print('VIOL',d['property'],d['signature'],d['what'][:400]); print('   replay',d['replay']['case']); print('   ',json.dumps(d['detail'])[:int('${DETAIL:-600}')])
    elif d['type']=='summary':
        d['keys']=len(d['keys']); d['samples']=len(d['samples']); print(json.dumps(d,indent=1))
    else: print(json.dumps(d)[:600])
"
