// The generator's own representation of rules, the tiny command language executed by VSys, and the
// reference model: "run the rules' commands from scratch, in dependency order, on the current sources".
//
// `evaluate_step` is the specification of the *user's command* and is shared by the interpreter
// (which runs inside VSys when ruler executes a command) and by the reference model.  Everything else
// in the model is independent of ruler: it works on the generator's structured rules, not on parser
// output, and has its own scope / ordering / failure propagation.

use std::collections::{BTreeMap, BTreeSet};

use crate::system::CommandLineOutput;
use crate::verif::vsys::VSys;

#[derive(Clone, Debug, PartialEq, Eq, PartialOrd, Ord)]
pub struct OutSpec
{
    pub path : String,
    /* raw: concatenation of the selected inputs; otherwise tagged with salt and path */
    pub raw : bool,
    /* bit i selects input i (declared sources first, then undeclared inputs) */
    pub mask : u32,
    pub exec : bool,
}

#[derive(Clone, Debug, PartialEq, Eq, PartialOrd, Ord)]
pub struct GRule
{
    pub outs : Vec<OutSpec>,
    pub sources : Vec<String>,
    pub undeclared : Vec<String>,
    pub salt : String,
    /* the command is not a known program (exit 127) */
    pub garbage : bool,
    /* render the command as two script lines separated by a lone ';' */
    pub split : bool,
    /* the command starts with a script line that writes nothing (a check, a clean-up): "vgen salt -- inputs ; ..." */
    pub precheck : bool,
}

impl GRule
{
    pub fn targets(&self) -> Vec<String>
    {
        self.outs.iter().map(|o| o.path.clone()).collect()
    }

    fn inputs_tokens(&self) -> Vec<String>
    {
        let mut t : Vec<String> = self.sources.clone();
        for u in self.undeclared.iter() { t.push(format!("?{}", u)); }
        t
    }

    fn step_tokens(&self, outs : &[OutSpec]) -> Vec<String>
    {
        let mut t = vec![if self.garbage { "nosuchprogram".to_string() } else { "vgen".to_string() }, self.salt.clone()];
        for o in outs
        {
            t.push(format!("{}={}{:x}{}", o.path, if o.raw {"r"} else {"t"}, o.mask, if o.exec {"x"} else {""}));
        }
        t.push("--".to_string());
        t.extend(self.inputs_tokens());
        t
    }

    /* the lines of the command section */
    pub fn command_lines(&self) -> Vec<String>
    {
        if self.precheck
        {
            let mut t = self.step_tokens(&[]);
            t.push(";".to_string());
            t.extend(self.step_tokens(&self.outs));
            return t;
        }
        if self.split && self.outs.len() >= 2
        {
            let h = self.outs.len() / 2;
            let mut t = self.step_tokens(&self.outs[..h]);
            t.push(";".to_string());
            t.extend(self.step_tokens(&self.outs[h..]));
            t
        }
        else
        {
            self.step_tokens(&self.outs)
        }
    }

    /* what `to_command_script` followed by Display makes of the command lines: the key VSys sees */
    pub fn script_text(&self) -> String
    {
        let mut lines = vec![];
        let mut cur : Vec<String> = vec![];
        for tok in self.command_lines()
        {
            if tok == ";" { lines.push(cur.join(" ")); cur = vec![]; } else { cur.push(tok); }
        }
        if cur.len() > 0 { lines.push(cur.join(" ")); }
        lines.join("; ")
    }

    /* canonical identity per the property text: target set, source set, command lines in order */
    pub fn canon(&self) -> String
    {
        let mut t = self.targets(); t.sort();
        let mut s = self.sources.clone(); s.sort();
        format!("T[{}]S[{}]C[{}]", t.join("\u{1}"), s.join("\u{1}"), self.command_lines().join("\u{1}"))
    }

    pub fn steps(&self) -> Vec<Vec<OutSpec>>
    {
        if self.precheck
        {
            return vec![vec![], self.outs.clone()];
        }
        if self.split && self.outs.len() >= 2
        {
            let h = self.outs.len() / 2;
            vec![self.outs[..h].to_vec(), self.outs[h..].to_vec()]
        }
        else
        {
            vec![self.outs.clone()]
        }
    }
}

/* ------------------------------------------------------------------ the command's specification */

pub fn digest(content : &[u8]) -> String
{
    if content.len() <= 48
    {
        String::from_utf8_lossy(content).to_string()
    }
    else
    {
        format!("{}~{:016x}", String::from_utf8_lossy(&content[..12]), crate::verif::util::fnv64(content))
    }
}

pub struct StepResult
{
    pub code : i32,
    pub writes : Vec<(String, Vec<u8>, bool)>,
    pub skipped : Vec<String>,
}

/* inputs: (name, declared?, content or None when the file does not exist) */
pub fn evaluate_step(salt : &str, outs : &[OutSpec], inputs : &[(String, bool, Option<Vec<u8>>)], step_index : usize) -> StepResult
{
    let mut killed = false;
    for (_name, declared, content) in inputs
    {
        match content
        {
            None => if *declared { return StepResult { code : 1, writes : vec![], skipped : vec![] }; },
            Some(c) =>
            {
                // "!FAILSTEP:<k> ..." makes only script line k of the command fail (a failing line followed or preceded
                // by succeeding ones); "!FAIL..." makes every line fail
                if c.starts_with(b"!FAILSTEP:")
                {
                    let rest = String::from_utf8_lossy(&c[10..]).to_string();
                    let k : usize = rest.split_whitespace().next().unwrap_or("0").parse().unwrap_or(0);
                    if k == step_index { return StepResult { code : 1, writes : vec![], skipped : vec![] }; }
                }
                // "!FAILSIG ..." : the command is killed by a signal (no exit code at all) after it has created its outputs,
                // each holding only the first half of its bytes
                else if c.starts_with(b"!FAILSIG") { killed = true; }
                // "!FAILEXEC ..." : the system cannot start the command (execute_command returns an error for the line)
                else if c.starts_with(b"!FAILEXEC") { return StepResult { code : -8, writes : vec![], skipped : vec![] }; }
                else if c.starts_with(b"!FAIL") { return StepResult { code : 1, writes : vec![], skipped : vec![] }; }
            },
        }
    }

    let mut skip : BTreeSet<String> = BTreeSet::new();
    for (_name, _declared, content) in inputs
    {
        if let Some(c) = content
        {
            if c.starts_with(b"!SKIP:")
            {
                let rest = String::from_utf8_lossy(&c[6..]).to_string();
                let path = rest.split_whitespace().next().unwrap_or("").to_string();
                skip.insert(path);
            }
        }
    }

    let mut writes = vec![];
    let mut skipped = vec![];
    for out in outs
    {
        if skip.contains(&out.path)
        {
            skipped.push(out.path.clone());
            continue;
        }
        let mut bytes : Vec<u8> = vec![];
        if !out.raw
        {
            bytes.extend_from_slice(format!("{}|{}|", salt, out.path).as_bytes());
        }
        for (i, (name, _declared, content)) in inputs.iter().enumerate()
        {
            if i < 32 && (out.mask >> i) & 1 == 1
            {
                if out.raw
                {
                    if let Some(c) = content { bytes.extend_from_slice(c); }
                }
                else
                {
                    let shown = match content { Some(c) => digest(c), None => "<none>".to_string() };
                    bytes.extend_from_slice(format!("{}={};", name, shown).as_bytes());
                }
            }
        }
        writes.push((out.path.clone(), bytes, out.exec));
    }
    if killed
    {
        for w in writes.iter_mut() { let half = w.1.len() / 2; w.1.truncate(half); }
        return StepResult { code : -9, writes : writes, skipped : skipped };
    }
    StepResult { code : 0, writes : writes, skipped : skipped }
}

fn parse_outspec(token : &str) -> Option<OutSpec>
{
    let eq = token.rfind('=')?;
    let path = &token[..eq];
    let spec = &token[eq+1..];
    if path.len() == 0 || spec.len() < 2 { return None; }
    let raw = match &spec[..1] { "r" => true, "t" => false, _ => return None };
    let (hex, exec) = if spec.ends_with('x') { (&spec[1..spec.len()-1], true) } else { (&spec[1..], false) };
    let mask = u32::from_str_radix(hex, 16).ok()?;
    Some(OutSpec { path : path.to_string(), raw : raw, mask : mask, exec : exec })
}

/* marks a script line the system could not start; VSys turns it into an error entry of execute_command */
pub const CANNOT_EXECUTE : &str = "!cannot-execute";

fn output(code : i32, err : &str) -> CommandLineOutput
{
    // a negative code stands for "terminated by a signal": the process reports no exit code
    CommandLineOutput { out : "".to_string(), err : err.to_string(), code : if code < 0 { None } else { Some(code) }, success : code == 0 }
}

/* The interpreter: executes one script line against VSys, as a separate process would. */
pub fn run_script_line(sys : &VSys, line : &str, step_index : usize) -> CommandLineOutput
{
    let tokens : Vec<&str> = line.split_whitespace().collect();
    if tokens.len() < 2 || tokens[0] != "vgen"
    {
        return output(127, "command not found");
    }
    let salt = tokens[1];
    let mut outs = vec![];
    let mut i = 2;
    while i < tokens.len() && tokens[i] != "--"
    {
        match parse_outspec(tokens[i])
        {
            Some(o) => outs.push(o),
            None => return output(2, "bad output spec"),
        }
        i += 1;
    }
    if i >= tokens.len()
    {
        return output(2, "missing --");
    }
    let mut inputs = vec![];
    for token in tokens[i+1..].iter()
    {
        let (name, declared) = if token.starts_with('?') { (&token[1..], false) } else { (&token[..], true) };
        let content = sys.cmd_read(name);
        inputs.push((name.to_string(), declared, content));
    }

    let result = evaluate_step(salt, &outs, &inputs, step_index);
    if result.code == -8
    {
        return output(-8, CANNOT_EXECUTE);
    }
    if result.code == -9
    {
        // killed by a signal after the (half-written) outputs exist
        for (path, bytes, exec) in result.writes.iter() { sys.cmd_write(path, bytes, *exec); }
        return output(-9, "killed");
    }
    if result.code != 0
    {
        return output(result.code, "failed");
    }
    for (path, bytes, exec) in result.writes.iter()
    {
        if !sys.cmd_write(path, bytes, *exec)
        {
            return output(1, "cannot write output");
        }
    }
    output(0, "")
}

/* ------------------------------------------------------------------ reference model */

#[derive(Clone, Debug, PartialEq)]
pub enum RuleStatus
{
    /* target path -> (bytes, exec) */
    Ok(BTreeMap<String, (Vec<u8>, bool)>),
    /* the command exits non-zero */
    CommandFails,
    /* the command succeeds but leaves these declared targets unwritten */
    NotGenerated(Vec<String>),
    /* a prerequisite failed or a leaf is missing */
    Cancelled,
    OutOfScope,
}

#[derive(Clone, Debug, PartialEq)]
pub enum Structural
{
    DuplicateTarget(String),
    GoalMissing(String),
    Cycle,
}

#[derive(Clone, Debug)]
pub struct Eval
{
    pub structural : Option<Structural>,
    pub status : Vec<RuleStatus>,
    pub in_scope : Vec<bool>,
    /* leaves (declared sources produced by no rule) used by in-scope rules */
    pub leaves : BTreeSet<String>,
    pub missing_leaves : BTreeSet<String>,
    /* dependency order of in-scope rules */
    pub order : Vec<usize>,
    /* expected bytes of every declared source of every in-scope rule whose command may run */
    pub expected_sources : Vec<Vec<(String, Option<Vec<u8>>)>>,
}

impl Eval
{
    pub fn all_ok(&self) -> bool
    {
        self.structural.is_none() && self.missing_leaves.len() == 0 &&
        self.status.iter().all(|s| match s { RuleStatus::Ok(_) | RuleStatus::OutOfScope => true, _ => false })
    }

    pub fn expected_targets(&self) -> BTreeMap<String, (Vec<u8>, bool)>
    {
        let mut out = BTreeMap::new();
        for s in self.status.iter()
        {
            if let RuleStatus::Ok(map) = s
            {
                for (k, v) in map.iter() { out.insert(k.clone(), v.clone()); }
            }
        }
        out
    }

    pub fn scope_targets(&self, rules : &[GRule]) -> BTreeSet<String>
    {
        let mut out = BTreeSet::new();
        for (i, r) in rules.iter().enumerate()
        {
            if self.in_scope[i] { for t in r.targets() { out.insert(t); } }
        }
        out
    }
}

/*  files: every user-provided file (leaves and undeclared inputs) -> content. */
pub fn evaluate(rules : &[GRule], goal : &Option<String>, files : &BTreeMap<String, Vec<u8>>) -> Eval
{
    let n = rules.len();
    let mut eval = Eval
    {
        structural : None,
        status : vec![RuleStatus::OutOfScope; n],
        in_scope : vec![false; n],
        leaves : BTreeSet::new(),
        missing_leaves : BTreeSet::new(),
        order : vec![],
        expected_sources : vec![vec![]; n],
    };

    // who produces what
    let mut producer : BTreeMap<String, usize> = BTreeMap::new();
    for (i, r) in rules.iter().enumerate()
    {
        for t in r.targets()
        {
            if producer.contains_key(&t)
            {
                eval.structural = Some(Structural::DuplicateTarget(t));
                return eval;
            }
            producer.insert(t, i);
        }
    }

    // scope
    let roots : Vec<usize> = match goal
    {
        Some(g) => match producer.get(g)
        {
            Some(i) => vec![*i],
            None =>
            {
                eval.structural = Some(Structural::GoalMissing(g.clone()));
                return eval;
            },
        },
        None => (0..n).collect(),
    };
    let mut stack = roots.clone();
    while let Some(i) = stack.pop()
    {
        if eval.in_scope[i] { continue; }
        eval.in_scope[i] = true;
        for s in rules[i].sources.iter()
        {
            if let Some(p) = producer.get(s) { stack.push(*p); }
        }
    }

    // order by repeated sweeps (Kahn); anything left is on or behind a cycle
    let mut done = vec![false; n];
    loop
    {
        let mut progress = false;
        for i in 0..n
        {
            if !eval.in_scope[i] || done[i] { continue; }
            let ready = rules[i].sources.iter().all(|s| match producer.get(s) { Some(p) => done[*p] && *p != i, None => true });
            if ready
            {
                done[i] = true;
                eval.order.push(i);
                progress = true;
            }
        }
        if !progress { break; }
    }
    if (0..n).any(|i| eval.in_scope[i] && !done[i])
    {
        eval.structural = Some(Structural::Cycle);
        return eval;
    }

    // evaluation
    let mut produced : BTreeMap<String, (Vec<u8>, bool)> = BTreeMap::new();
    for i in eval.order.clone()
    {
        let r = &rules[i];
        let mut cancelled = false;
        let mut inputs : Vec<(String, bool, Option<Vec<u8>>)> = vec![];
        for s in r.sources.iter()
        {
            match producer.get(s)
            {
                Some(p) =>
                {
                    match &eval.status[*p]
                    {
                        RuleStatus::Ok(_) => inputs.push((s.clone(), true, Some(produced.get(s).unwrap().0.clone()))),
                        _ => { cancelled = true; },
                    }
                },
                None =>
                {
                    eval.leaves.insert(s.clone());
                    match files.get(s)
                    {
                        Some(c) => inputs.push((s.clone(), true, Some(c.clone()))),
                        None =>
                        {
                            eval.missing_leaves.insert(s.clone());
                            cancelled = true;
                        },
                    }
                },
            }
        }
        if cancelled
        {
            eval.status[i] = RuleStatus::Cancelled;
            continue;
        }
        eval.expected_sources[i] = inputs.iter().map(|(n, _, c)| (n.clone(), c.clone())).collect();
        for u in r.undeclared.iter()
        {
            inputs.push((u.clone(), false, files.get(u).cloned()));
        }

        if r.garbage
        {
            eval.status[i] = RuleStatus::CommandFails;
            continue;
        }
        let mut failed = false;
        let mut skipped = vec![];
        let mut outs : BTreeMap<String, (Vec<u8>, bool)> = BTreeMap::new();
        for (step_index, step) in r.steps().into_iter().enumerate()
        {
            let result = evaluate_step(&r.salt, &step, &inputs, step_index);
            if result.code != 0 { failed = true; }
            skipped.extend(result.skipped);
            for (p, b, x) in result.writes { outs.insert(p, (b, x)); }
        }
        if failed
        {
            eval.status[i] = RuleStatus::CommandFails;
        }
        else if skipped.len() > 0
        {
            eval.status[i] = RuleStatus::NotGenerated(skipped);
        }
        else
        {
            for (p, v) in outs.iter() { produced.insert(p.clone(), v.clone()); }
            eval.status[i] = RuleStatus::Ok(outs);
        }
    }
    eval
}

/* ------------------------------------------------------------------ rendering to .rules text */

#[derive(Clone, Debug)]
pub struct RenderStyle
{
    pub bundle_targets : bool,
    pub bundle_sources : bool,
    pub shuffle_lines : bool,
    pub leading_blank : usize,
    pub between_blank : usize,
    pub trailing_newlines : usize,
    pub duplicate_entry : bool,
}

impl RenderStyle
{
    pub fn plain() -> RenderStyle
    {
        RenderStyle { bundle_targets : false, bundle_sources : false, shuffle_lines : false, leading_blank : 0, between_blank : 1, trailing_newlines : 1, duplicate_entry : false }
    }

    pub fn random(rng : &mut crate::verif::util::Rng) -> RenderStyle
    {
        RenderStyle
        {
            bundle_targets : rng.chance(1, 3),
            bundle_sources : rng.chance(1, 3),
            shuffle_lines : rng.chance(1, 2),
            leading_blank : rng.below(3),
            between_blank : 1 + rng.below(2),
            trailing_newlines : rng.below(3),
            duplicate_entry : rng.chance(1, 6),
        }
    }
}

/* Render a list of paths as tab-indented bundle lines (directories group their children). */
pub fn bundle_lines(paths : &[String]) -> Vec<String>
{
    #[derive(Default)]
    struct Tree { children : Vec<(String, Tree)>, leaf : bool }
    fn insert(tree : &mut Tree, parts : &[&str])
    {
        if parts.len() == 0 { tree.leaf = true; return; }
        let pos = tree.children.iter().position(|(n, _)| n == parts[0]);
        let idx = match pos
        {
            Some(p) => p,
            None => { tree.children.push((parts[0].to_string(), Tree::default())); tree.children.len() - 1 },
        };
        insert(&mut tree.children[idx].1, &parts[1..]);
    }
    fn emit(tree : &Tree, depth : usize, out : &mut Vec<String>)
    {
        for (name, child) in tree.children.iter()
        {
            out.push(format!("{}{}", "\t".repeat(depth), name));
            emit(child, depth + 1, out);
        }
    }
    let mut root = Tree::default();
    for p in paths
    {
        let parts : Vec<&str> = p.split('/').collect();
        insert(&mut root, &parts);
    }
    let mut out = vec![];
    emit(&root, 0, &mut out);
    out
}

/*  A path list can be bundled only if no path is both a file and a directory prefix of another. */
fn bundlable(paths : &[String]) -> bool
{
    for a in paths
    {
        for b in paths
        {
            if a != b && b.starts_with(&format!("{}/", a)) { return false; }
        }
    }
    true
}

pub fn render_rule(rule : &GRule, style : &RenderStyle, rng : &mut crate::verif::util::Rng) -> String
{
    let mut text = String::new();
    let mut targets = rule.targets();
    let mut sources = rule.sources.clone();
    if style.shuffle_lines
    {
        rng.shuffle(&mut targets);
        rng.shuffle(&mut sources);
    }
    if style.duplicate_entry && sources.len() > 0
    {
        let dup = sources[rng.below(sources.len())].clone();
        sources.push(dup);
    }
    let tlines = if style.bundle_targets && bundlable(&targets) { bundle_lines(&targets) } else { targets };
    let slines = if style.bundle_sources && bundlable(&sources) { bundle_lines(&sources) } else { sources };
    for l in tlines { text.push_str(&l); text.push('\n'); }
    text.push_str(":\n");
    for l in slines { text.push_str(&l); text.push('\n'); }
    text.push_str(":\n");
    for l in rule.command_lines() { text.push_str(&l); text.push('\n'); }
    text.push_str(":");
    text
}

pub fn render_rules(rules : &[GRule], style : &RenderStyle, rng : &mut crate::verif::util::Rng) -> String
{
    let mut text = "\n".repeat(style.leading_blank);
    let mut order : Vec<usize> = (0..rules.len()).collect();
    if style.shuffle_lines { rng.shuffle(&mut order); }
    for (k, i) in order.iter().enumerate()
    {
        if k > 0 { text.push_str(&"\n".repeat(1 + style.between_blank)); }
        text.push_str(&render_rule(&rules[*i], style, rng));
    }
    text.push_str(&"\n".repeat(style.trailing_newlines));
    text
}
