// World: one workspace (VSys) plus the harness's own bookkeeping, the invocation wrappers around the real
// build()/clean(), and the monitors that judge each invocation.

use std::collections::{BTreeMap, BTreeSet};
use std::sync::Arc;

use termcolor::Color;

use crate::build::{self, BuildError, BuildParams};
use crate::printer::Printer;
use crate::work::WorkError;
use crate::sort::TopologicalSortError;
use crate::verif::model::{self, Eval, GRule, RenderStyle, RuleStatus, Structural};
use crate::verif::sha;
use crate::verif::shim::{self, Policy, RunReport};
use crate::verif::util::{fnv64, show_bytes, Counts, Rng, J};
use crate::verif::vsys::{Clock, Disk, Event, Expect, Op, VSys, Who, ruler_dir};

pub const RULES_FILE : &str = "build.rules";
/* some workspaces spread their rules over two files, as `ruler --rules a --rules b` allows */
pub const RULES_FILE_2 : &str = "more.rules";

/* ------------------------------------------------------------------ printer */

#[derive(Clone, Debug, Default)]
pub struct PrintLog
{
    pub banners : Vec<(String, String)>,
    pub prints : Vec<String>,
    pub errors : Vec<String>,
}

pub struct RecPrinter
{
    pub log : PrintLog,
}

impl Printer for RecPrinter
{
    fn print_single_banner_line(&mut self, banner_text : &str, _banner_color : Color, path : &str)
    {
        self.log.banners.push((banner_text.trim().to_string(), path.to_string()));
    }

    fn print(&mut self, text : &str)
    {
        self.log.prints.push(text.to_string());
    }

    fn error(&mut self, text : &str)
    {
        self.log.errors.push(text.to_string());
    }
}

/* ------------------------------------------------------------------ verdicts */

#[derive(Clone, Debug, PartialEq, Eq, PartialOrd, Ord)]
pub enum WErr
{
    FileNotFound(String),
    NotGenerated(String),
    CommandErrored,
    Contradiction(Vec<String>),
    /* cache / resolution problems, with the Debug text */
    Resolution(String),
    Other(String),
}

#[derive(Clone, Debug, PartialEq, Eq, PartialOrd, Ord)]
pub enum Verdict
{
    Ok,
    WorkErrors(Vec<WErr>),
    SortDuplicate(String),
    SortGoalMissing(String),
    SortCycle(String),
    Parse(String),
    /* SenderError / ReceiverError / Weird: internal failures */
    Internal(String),
    Other(String),
    Panicked(String),
    /* the scheduler aborted the scenario (deadlock or step bound) */
    Aborted,
}

impl Verdict
{
    pub fn short(&self) -> String
    {
        match self
        {
            Verdict::Ok => "Ok".to_string(),
            Verdict::WorkErrors(e) => format!("WorkErrors{:?}", e),
            other => format!("{:?}", other),
        }
    }

    pub fn is_ok(&self) -> bool { *self == Verdict::Ok }
}

fn convert_work_error(e : &WorkError) -> WErr
{
    match e
    {
        WorkError::FileNotFound(p) => WErr::FileNotFound(p.clone()),
        WorkError::TargetFileNotGenerated(p) => WErr::NotGenerated(p.clone()),
        WorkError::CommandExecutedButErrored => WErr::CommandErrored,
        // the system could not run the command at all: one error for the failed rule, like a non-zero exit
        WorkError::CommandFailedToExecute(_) => WErr::CommandErrored,
        WorkError::Contradiction(paths) => WErr::Contradiction(paths.clone()),
        WorkError::ResolutionError(r) => WErr::Resolution(format!("{:?}", r)),
        other => WErr::Other(format!("{:?}", other)),
    }
}

pub fn convert_result(result : &Result<(), BuildError>) -> Verdict
{
    match result
    {
        Ok(()) => Verdict::Ok,
        Err(BuildError::WorkErrors(list)) =>
        {
            let mut v : Vec<WErr> = list.iter().map(convert_work_error).collect();
            v.sort();
            Verdict::WorkErrors(v)
        },
        Err(BuildError::TopologicalSortFailed(e)) => match e
        {
            TopologicalSortError::TargetInMultipleRules(t) => Verdict::SortDuplicate(t.clone()),
            TopologicalSortError::TargetMissing(t) => Verdict::SortGoalMissing(t.clone()),
            TopologicalSortError::SelfDependentRule(t) => Verdict::SortCycle(format!("self:{}", t)),
            TopologicalSortError::CircularDependence(c) => Verdict::SortCycle(format!("cycle:{}", c.join(","))),
        },
        Err(BuildError::RuleFileFailedToParse(e)) => Verdict::Parse(format!("{:?}", e)),
        Err(BuildError::SenderError(_)) => Verdict::Internal("SenderError".to_string()),
        Err(BuildError::ReceiverError(_)) => Verdict::Internal("ReceiverError".to_string()),
        Err(BuildError::Weird) => Verdict::Internal("Weird".to_string()),
        Err(other) => Verdict::Other(format!("{:?}", other)),
    }
}

/* ------------------------------------------------------------------ violations */

#[derive(Clone, Debug)]
pub struct Violation
{
    pub property : String,
    pub what : String,
    pub signature : String,
}

impl Violation
{
    pub fn new(property : &str, signature : &str, what : String) -> Violation
    {
        Violation { property : property.to_string(), what : what, signature : signature.to_string() }
    }
}

/* ------------------------------------------------------------------ observation of one invocation */

#[derive(Clone, Debug)]
pub struct NodeMap
{
    /* logical thread id -> leaf path (build only) */
    pub leaf_threads : BTreeMap<usize, String>,
    /* logical thread id -> rule index in `rules` */
    pub rule_threads : BTreeMap<usize, usize>,
    /* channel index -> (source path, producing rule index or None for a leaf, consuming rule index) */
    pub chans : Vec<(String, Option<usize>, usize)>,
}

pub struct Obs
{
    pub kind : &'static str,
    pub goal : Option<String>,
    pub verdict : Verdict,
    pub report : RunReport,
    pub log : Vec<Event>,
    pub print : PrintLog,
    pub before : Disk,
    pub after : Disk,
    pub eval : Eval,
    pub nodemap : Option<NodeMap>,
    pub online : Vec<Violation>,
    /* rule indices whose command started in this invocation, with counts */
    pub ran : BTreeMap<usize, usize>,
    pub rules : Vec<GRule>,
}

#[derive(Clone, Debug)]
pub struct SchedChoice
{
    pub policy : Policy,
    pub seed : u64,
    pub step_limit : u64,
    /* None: controlled scheduler; Some(jitter): free-running on std primitives */
    pub free : Option<bool>,
}

impl SchedChoice
{
    pub fn serial() -> SchedChoice
    {
        SchedChoice { policy : Policy::Serial(vec![]), seed : 0, step_limit : 2_000_000, free : None }
    }
}

/* ------------------------------------------------------------------ the world */

pub struct World
{
    pub sys : VSys,
    pub rules : Vec<GRule>,
    pub rule_versions : Vec<Vec<GRule>>,
    pub leaf_versions : BTreeMap<String, Vec<Vec<u8>>>,
    pub ever_targets : BTreeSet<String>,
    /* the harness's own record: (canonical rule, source bytes) -> outputs of a successful, persisted execution */
    pub record : BTreeMap<(String, String), BTreeMap<String, Vec<u8>>>,
    pub counter : u64,
    pub salt_counter : u64,
    pub rng : Rng,
    pub style : RenderStyle,
    pub clock : Clock,
    /* (goal, scope target set) of the last build if it succeeded and nothing happened since */
    pub fresh_build : Option<(Option<String>, BTreeSet<String>)>,
    pub stats : Counts,
    pub ops : Vec<String>,
    pub has_undeclared : bool,
    pub erase_table_before_build : bool,
    /* rules are written to one file or split over two */
    pub two_rule_files : bool,
}

fn sources_key(sources : &[(String, Option<Vec<u8>>)]) -> String
{
    let mut sorted : Vec<&(String, Option<Vec<u8>>)> = sources.iter().collect();
    sorted.sort();
    let mut key = String::new();
    for (name, content) in sorted
    {
        key.push_str(name);
        key.push('\u{1}');
        match content { Some(c) => key.push_str(&format!("{}:{:016x}", c.len(), fnv64(c))), None => key.push_str("-") };
        key.push('\u{2}');
    }
    key
}

pub fn user_files(disk : &Disk) -> BTreeMap<String, Vec<u8>>
{
    let mut out = BTreeMap::new();
    for (path, inode) in disk.view()
    {
        if path == ruler_dir() || path.starts_with(&format!("{}/", ruler_dir())) { continue; }
        out.insert(path, inode.data);
    }
    out
}

pub fn cache_files(disk : &Disk) -> Vec<(String, Vec<u8>)>
{
    let prefix = format!("{}/cache/", ruler_dir());
    disk.view().into_iter().filter(|(p, _)| p.starts_with(&prefix)).map(|(p, i)| (p[prefix.len()..].to_string(), i.data)).collect()
}

impl World
{
    /*  True while the directory of some target (or of ruler's own directory) does not exist, or while some file cannot
        be opened for reading: commands cannot write there and ruler cannot move files there resp. cannot hash the file,
        which the reference model does not describe.  Invocations made in such
        a state are judged only for what holds regardless (termination, scope, nothing lost, cache names). */
    pub fn env_broken(&self) -> bool
    {
        let mut paths : Vec<String> = self.rules.iter().flat_map(|r| r.targets()).collect();
        paths.push(ruler_dir().to_string());
        paths.iter().any(|p| { let parent = crate::verif::vsys::parent_of(p); parent != "" && !self.sys.is_dir_now(&parent) })
            || self.sys.any_unreadable()
    }

    pub fn new(seed : u64, clock : Clock, rules : Vec<GRule>) -> World
    {
        let mut rng = Rng::new(seed);
        let style = RenderStyle::random(&mut rng);
        let sys = VSys::new(clock, rng.next_u64());
        let mut world = World
        {
            sys : sys,
            rules : vec![],
            rule_versions : vec![],
            leaf_versions : BTreeMap::new(),
            ever_targets : BTreeSet::new(),
            record : BTreeMap::new(),
            counter : 0,
            salt_counter : 1000,
            rng : rng,
            style : style,
            clock : clock,
            fresh_build : None,
            stats : Counts::new(),
            ops : vec![],
            has_undeclared : false,
            erase_table_before_build : false,
            two_rule_files : false,
        };
        world.two_rule_files = world.rng.chance(1, 4);
        crate::verif::vsys::set_ruler_dir(match world.rng.below(10) { 0 | 1 => 1, 2 => 2, _ => 0 });
        for d in ["src", "in", "in/deep", "out", "gen", "gen/sub", "bin", "env", "meta"]
        {
            world.sys.user_mkdirs(d);
        }
        world.set_rules(rules);
        world
    }

    pub fn fresh_content(&mut self, tag : &str) -> Vec<u8>
    {
        self.counter += 1;
        format!("{}-v{}", tag, self.counter).into_bytes()
    }

    /* install a new rule set: remember it, render it through the text format, make sure leaves exist */
    pub fn set_rules(&mut self, rules : Vec<GRule>)
    {
        self.rule_versions.push(self.rules.clone());
        self.rules = rules;
        self.has_undeclared = self.rules.iter().any(|r| r.undeclared.len() > 0);
        for r in self.rules.iter() { for t in r.targets() { self.ever_targets.insert(t); } }
        self.write_rules_file();
        self.fresh_build = None;
    }

    pub fn rule_files(&self) -> Vec<String>
    {
        if self.two_rule_files { vec![RULES_FILE.to_string(), RULES_FILE_2.to_string()] } else { vec![RULES_FILE.to_string()] }
    }

    pub fn write_rules_file(&mut self)
    {
        self.sys.tick();
        if self.two_rule_files && self.rules.len() >= 2
        {
            let cut = 1 + self.rng.below(self.rules.len() - 1);
            let first = model::render_rules(&self.rules[..cut], &self.style, &mut self.rng);
            let second = model::render_rules(&self.rules[cut..], &self.style, &mut self.rng);
            self.sys.user_write(RULES_FILE, first.as_bytes(), false);
            self.sys.user_write(RULES_FILE_2, second.as_bytes(), false);
        }
        else
        {
            let text = model::render_rules(&self.rules, &self.style, &mut self.rng);
            self.sys.user_write(RULES_FILE, text.as_bytes(), false);
            if self.two_rule_files { self.sys.user_write(RULES_FILE_2, b"", false); }
        }
    }

    /* all rules text, for reports */
    pub fn rules_text(&self) -> String
    {
        let mut text = String::from_utf8_lossy(&self.sys.read_file(RULES_FILE).unwrap_or(vec![])).to_string();
        if self.two_rule_files
        {
            text.push_str("\n----- more.rules -----\n");
            text.push_str(&String::from_utf8_lossy(&self.sys.read_file(RULES_FILE_2).unwrap_or(vec![])));
        }
        text
    }

    pub fn write_leaf(&mut self, path : &str, content : Vec<u8>)
    {
        self.sys.tick();
        self.sys.user_write(path, &content, false);
        self.leaf_versions.entry(path.to_string()).or_insert(vec![]).push(content);
        self.fresh_build = None;
    }

    pub fn ensure_leaves(&mut self)
    {
        let produced : BTreeSet<String> = self.rules.iter().flat_map(|r| r.targets()).collect();
        let mut wanted : Vec<String> = vec![];
        for r in self.rules.iter()
        {
            for s in r.sources.iter().chain(r.undeclared.iter())
            {
                if !produced.contains(s) && !self.sys.lock().disk.is_file(s) && !wanted.contains(s) { wanted.push(s.clone()); }
            }
        }
        for w in wanted
        {
            let c = self.fresh_content(&w.replace("/", "_"));
            self.write_leaf(&w, c);
        }
    }

    pub fn note_op(&mut self, text : String)
    {
        self.ops.push(text);
    }

    /* ---------------------------------------------------------------- invocations */

    fn node_map(&self, goal : &Option<String>, with_leaves : bool) -> Option<NodeMap>
    {
        // ruler's own parse + sort, used only for the ORDER of threads and channels; paths are derived
        // from the generator's rules
        let was_logging;
        {
            let mut fs = self.sys.lock();
            was_logging = fs.logging;
            fs.logging = false;
        }
        let pack = build::get_nodes(&self.sys, self.rule_files(), goal.clone());
        {
            let mut fs = self.sys.lock();
            fs.logging = was_logging;
        }
        let pack = match pack { Ok(p) => p, Err(_) => return None };

        let mut map = NodeMap { leaf_threads : BTreeMap::new(), rule_threads : BTreeMap::new(), chans : vec![] };
        let mut tid = 1;
        if with_leaves
        {
            for leaf in pack.leaves.iter()
            {
                map.leaf_threads.insert(tid, leaf.clone());
                tid += 1;
            }
        }
        let producer : BTreeMap<String, usize> = self.rules.iter().enumerate()
            .flat_map(|(i, r)| r.targets().into_iter().map(move |t| (t, i))).collect();
        for node in pack.nodes.iter()
        {
            let mut targets = node.targets.clone();
            targets.sort();
            let index = self.rules.iter().position(|r| { let mut t = r.targets(); t.sort(); t == targets });
            let index = match index { Some(i) => i, None => return None };
            map.rule_threads.insert(tid, index);
            tid += 1;
            let mut sources : Vec<String> = self.rules[index].sources.clone();
            sources.sort();
            sources.dedup();
            if sources.len() != node.source_indices.len()
            {
                // the plan binds fewer (or more) sources than the rule declares: take the channels as the plan describes
                // them, so that what travels on them is still checked
                for si in node.source_indices.iter()
                {
                    let s = match si
                    {
                        crate::sort::SourceIndex::Leaf(k) => match pack.leaves.get(*k) { Some(l) => l.clone(), None => return None },
                        crate::sort::SourceIndex::Pair(n, sub) => match pack.nodes.get(*n).and_then(|x| x.targets.get(*sub)) { Some(t) => t.clone(), None => return None },
                    };
                    let p = producer.get(&s).cloned();
                    map.chans.push((s, p, index));
                }
                continue;
            }
            for s in sources
            {
                let p = producer.get(&s).cloned();
                map.chans.push((s, p, index));
            }
        }
        Some(map)
    }

    fn prepare(&mut self, goal : &Option<String>, eval : &Eval, nodemap : &Option<NodeMap>)
    {
        let mut fs = self.sys.lock();
        fs.expect.clear();
        for (i, r) in self.rules.iter().enumerate()
        {
            if !eval.in_scope.get(i).cloned().unwrap_or(false) { continue; }
            let may_run = match &eval.status[i] { RuleStatus::Cancelled => false, _ => true };
            fs.expect.insert(r.script_text(), Expect { rule_index : i, may_run : may_run, sources : eval.expected_sources[i].clone() });
        }
        fs.chan_paths = match nodemap { Some(m) => m.chans.iter().map(|c| c.0.clone()).collect(), None => vec![] };
        fs.scope_paths = if eval.structural.is_some() { Some(BTreeSet::new()) } else { Some(eval.scope_targets(&self.rules)) };
        let _ = goal;
        fs.log.clear();
        fs.online.clear();
    }

    pub fn invoke_build(&mut self, goal : Option<String>, choice : &SchedChoice) -> Obs
    {
        self.sys.tick();
        if self.erase_table_before_build
        {
            self.sys.user_remove(&format!("{}/current_file_states", ruler_dir()));
        }
        let before = self.sys.disk();
        let eval = model::evaluate(&self.rules, &goal, &user_files(&before));
        let nodemap = self.node_map(&goal, true);
        self.prepare(&goal, &eval, &nodemap);

        let mut printer = RecPrinter { log : PrintLog::default() };
        let sys = self.sys.clone();
        let params_goal = goal.clone();
        let rule_files = self.rule_files();
        let rule_files_2 = rule_files.clone();
        let observer : Arc<dyn shim::SendObserver> = Arc::new(self.sys.clone());
        let (result, report) = match choice.free
        {
            None => shim::run_controlled(choice.policy.clone(), choice.seed, Some(observer), choice.step_limit, ||
            {
                build::build(sys, &mut printer, BuildParams::from_all(
                    ruler_dir().to_string(), rule_files, None, params_goal))
            }),
            Some(jitter) =>
            {
                let (value, free_report) = shim::run_free(choice.seed, jitter, Some(observer), ||
                {
                    build::build(sys, &mut printer, BuildParams::from_all(
                        ruler_dir().to_string(), rule_files_2, None, params_goal))
                });
                let mut report = RunReport::default();
                report.threads = free_report.threads;
                report.channels = free_report.channels;
                report.panics = free_report.panics;
                report.main_panic = free_report.main_panic;
                (value, report)
            },
        };
        self.finish_obs("build", goal, result, report, printer.log, before, eval, nodemap)
    }

    pub fn invoke_clean(&mut self, goal : Option<String>, choice : &SchedChoice) -> Obs
    {
        self.sys.tick();
        let before = self.sys.disk();
        let eval = model::evaluate(&self.rules, &goal, &user_files(&before));
        let nodemap = self.node_map(&goal, false);
        self.prepare(&goal, &eval, &nodemap);

        let sys = self.sys.clone();
        let params_goal = goal.clone();
        let rule_files = self.rule_files();
        let rule_files_2 = rule_files.clone();
        let (result, report) = match choice.free
        {
            None => shim::run_controlled(choice.policy.clone(), choice.seed, None, choice.step_limit, ||
            {
                build::clean(sys, ruler_dir(), rule_files, params_goal)
            }),
            Some(jitter) =>
            {
                let (value, free_report) = shim::run_free(choice.seed, jitter, None, ||
                {
                    build::clean(sys, ruler_dir(), rule_files_2, params_goal)
                });
                let mut report = RunReport::default();
                report.threads = free_report.threads;
                report.panics = free_report.panics;
                report.main_panic = free_report.main_panic;
                (value, report)
            },
        };
        self.finish_obs("clean", goal, result, report, PrintLog::default(), before, eval, nodemap)
    }

    fn finish_obs(
        &mut self, kind : &'static str, goal : Option<String>, result : Option<Result<(), BuildError>>, report : RunReport,
        print : PrintLog, before : Disk, eval : Eval, nodemap : Option<NodeMap>) -> Obs
    {
        let verdict = match &result
        {
            Some(r) => convert_result(r),
            None => match &report.main_panic
            {
                Some(text) => Verdict::Panicked(text.clone()),
                None => Verdict::Aborted,
            },
        };
        let log = self.sys.take_log();
        let online = self.sys.take_online().into_iter()
            .map(|o| Violation::new(&o.property, &format!("online:{}", o.property), format!("{} (event #{})", o.what, o.seq))).collect();
        {
            let mut fs = self.sys.lock();
            fs.scope_paths = None;
            fs.expect.clear();
            fs.disk.gc();
        }
        let after = self.sys.disk();
        let mut ran = BTreeMap::new();
        let scripts : BTreeMap<String, usize> = self.rules.iter().enumerate().map(|(i, r)| (r.script_text(), i)).collect();
        for e in log.iter()
        {
            if e.op == Op::ExecBegin
            {
                if let Some(i) = scripts.get(&e.note) { *ran.entry(*i).or_insert(0) += 1; }
            }
        }
        Obs
        {
            kind : kind, goal : goal, verdict : verdict, report : report, log : log, print : print,
            before : before, after : after, eval : eval, nodemap : nodemap, online : online, ran : ran,
            rules : self.rules.clone(),
        }
    }

    /* ---------------------------------------------------------------- bookkeeping after an invocation */

    /*  Update the harness's record R and the freshness marker.  Call after the monitors. */
    pub fn absorb(&mut self, obs : &Obs)
    {
        if obs.kind == "build"
        {
            let persisted = match &obs.verdict { Verdict::Ok | Verdict::WorkErrors(_) => true, _ => false };
            let named : BTreeSet<String> = match &obs.verdict
            {
                Verdict::WorkErrors(list) => list.iter().flat_map(|e| match e
                {
                    WErr::NotGenerated(p) => vec![p.clone()],
                    WErr::Contradiction(ps) => ps.clone(),
                    _ => vec![],
                }).collect(),
                _ => BTreeSet::new(),
            };
            if persisted
            {
                for (i, _count) in obs.ran.iter()
                {
                    let rule = &obs.rules[*i];
                    if let RuleStatus::Ok(_) = &obs.eval.status[*i]
                    {
                        if rule.targets().iter().any(|t| named.contains(t)) { continue; }
                        let mut outs = BTreeMap::new();
                        let mut complete = true;
                        for t in rule.targets()
                        {
                            match obs.after.read(&t) { Some(b) => { outs.insert(t, b.clone()); }, None => complete = false }
                        }
                        if complete
                        {
                            let key = (rule.canon(), sources_key(&obs.eval.expected_sources[*i]));
                            self.record.entry(key).or_insert(outs);
                        }
                    }
                }
            }
            self.fresh_build = if obs.verdict.is_ok() { Some((obs.goal.clone(), obs.eval.scope_targets(&obs.rules))) } else { None };
        }
        else
        {
            self.fresh_build = None;
        }
    }

    pub fn forget_identity(&mut self, canon : &str)
    {
        let keys : Vec<(String, String)> = self.record.keys().filter(|k| k.0 == canon).cloned().collect();
        for k in keys { self.record.remove(&k); }
    }

    pub fn forget_everything(&mut self)
    {
        self.record.clear();
    }
}

/* ------------------------------------------------------------------ monitors */

fn is_ruler_path(path : &str) -> bool
{
    path == ruler_dir() || path.starts_with(&format!("{}/", ruler_dir()))
}

/* C07: every cache entry is named after the hash of its own bytes */
pub fn m_cas(disk : &Disk) -> (Vec<Violation>, usize)
{
    let mut out = vec![];
    let entries = cache_files(disk);
    for (name, data) in entries.iter()
    {
        if name.contains('/') { continue; }
        let truth = sha::name_of(data);
        if *name != truth
        {
            out.push(Violation::new("C07", "cache-entry-misnamed",
                format!("cache entry {} holds bytes {:?} whose hash name is {}", name, show_bytes(data), truth)));
        }
    }
    (out, entries.len())
}

/* C07 second clause: what was moved out of the cache onto a target is what the entry's name promised */
pub fn m_restore_exact(obs : &Obs) -> Vec<Violation>
{
    let mut out = vec![];
    let prefix = format!("{}/cache/", ruler_dir());
    // reconstruct bytes of moved files from the before-state plus command writes is not needed: VSys
    // recorded the fnv of the moved bytes; compare against the cache content present before, when known
    let before_cache : BTreeMap<String, Vec<u8>> = cache_files(&obs.before).into_iter().collect();
    for e in obs.log.iter()
    {
        if e.op == Op::Rename && e.ok && e.who == Who::Ruler && e.p1.starts_with(&prefix) && !is_ruler_path(&e.p2)
        {
            let name = &e.p1[prefix.len()..];
            if let Some(bytes) = before_cache.get(name)
            {
                // entry untouched since before the invocation iff the moved bytes have the same fingerprint
                if format!("{:016x}", fnv64(bytes)) == e.note && sha::name_of(bytes) != *name
                {
                    out.push(Violation::new("C07", "restored-bytes-differ-from-name",
                        format!("restored {} from entry {} whose bytes hash to {}", e.p2, name, sha::name_of(bytes))));
                }
            }
        }
    }
    out
}

/* C08: every byte string present at an ever-declared target path or in the cache is still present at one */
pub fn m_keep(before : &Disk, after : &Disk, ever_targets : &BTreeSet<String>) -> (Vec<Violation>, usize)
{
    let collect = |disk : &Disk| -> BTreeMap<u64, (String, Vec<u8>)>
    {
        let mut set = BTreeMap::new();
        for t in ever_targets.iter()
        {
            if let Some(b) = disk.read(t) { set.insert(fnv64(b) ^ (b.len() as u64).rotate_left(40), (t.clone(), b.clone())); }
        }
        for (name, b) in cache_files(disk)
        {
            set.insert(fnv64(&b) ^ (b.len() as u64).rotate_left(40), (format!("cache/{}", name), b));
        }
        set
    };
    let b = collect(before);
    let a = collect(after);
    let mut out = vec![];
    for (k, (place, bytes)) in b.iter()
    {
        if !a.contains_key(k)
        {
            out.push(Violation::new("C08", "content-lost",
                format!("content {:?} (was at {}) is at no target path and not in the cache afterwards", show_bytes(bytes), place)));
        }
    }
    (out, b.len())
}

/* C09: files outside the scope are bit-identical before and after */
pub fn m_scope(obs : &Obs) -> (Vec<Violation>, usize)
{
    let scope : BTreeSet<String> = if obs.eval.structural.is_some() { BTreeSet::new() } else { obs.eval.scope_targets(&obs.rules) };
    let b = obs.before.view();
    let a = obs.after.view();
    let mut out = vec![];
    let mut outside = 0;
    let mut paths : BTreeSet<&String> = b.keys().collect();
    paths.extend(a.keys());
    for p in paths
    {
        if is_ruler_path(p) || scope.contains(p) { continue; }
        outside += 1;
        if b.get(p) != a.get(p)
        {
            out.push(Violation::new("C09", "out-of-scope-file-changed",
                format!("file {} outside the scope changed across {} (before {:?}, after {:?})", p, obs.kind,
                    b.get(p).map(|i| (show_bytes(&i.data), i.mtime, i.exec)), a.get(p).map(|i| (show_bytes(&i.data), i.mtime, i.exec)))));
        }
    }
    // directories outside the scope must not appear or vanish either
    for (p, n) in obs.after.nodes.iter()
    {
        if *n == crate::verif::vsys::Node::Dir && !is_ruler_path(p) && !obs.before.nodes.contains_key(p)
        {
            out.push(Violation::new("C09", "directory-created", format!("directory {} was created outside the ruler directory", p)));
        }
    }
    (out, outside)
}

/* C01: success reported => every in-scope target equals the from-scratch evaluation */
pub fn m_final(obs : &Obs) -> (Vec<Violation>, usize)
{
    let mut out = vec![];
    if obs.kind != "build" || !obs.verdict.is_ok() { return (out, 0); }
    if !obs.eval.all_ok()
    {
        let why = match &obs.eval.structural
        {
            Some(s) => format!("the rule set is invalid ({:?})", s),
            None => format!("the from-scratch evaluation fails (missing leaves {:?}, statuses {:?})", obs.eval.missing_leaves,
                obs.eval.status.iter().enumerate().filter(|(_, s)| match s { RuleStatus::Ok(_) | RuleStatus::OutOfScope => false, _ => true })
                    .map(|(i, s)| format!("#{}:{:?}", i, s)).collect::<Vec<String>>()),
        };
        out.push(Violation::new("C01", "success-but-model-fails", format!("build reported success although {}", why)));
        return (out, 0);
    }
    let expected = obs.eval.expected_targets();
    for (path, (bytes, exec)) in expected.iter()
    {
        match obs.after.inode(path)
        {
            None => out.push(Violation::new("C01", "target-missing-after-success", format!("target {} does not exist after a successful build", path))),
            Some(inode) =>
            {
                if inode.data != *bytes
                {
                    out.push(Violation::new("C01", "target-bytes-differ",
                        format!("target {} holds {:?}; from scratch it would be {:?}", path, show_bytes(&inode.data), show_bytes(bytes))));
                }
                // the executable bit is deliberately not compared: C01 speaks of bytes only (C10 covers the bit)
                let _ = exec;
            },
        }
    }
    (out, expected.len())
}

/* C04: verdict and error list equal the model's failing set; independent rules are correct */
pub fn m_fail(obs : &Obs) -> Vec<Violation>
{
    let mut out = vec![];
    if obs.kind != "build" { return out; }
    match (&obs.eval.structural, &obs.verdict)
    {
        (Some(Structural::DuplicateTarget(_)), Verdict::SortDuplicate(_)) => return out,
        (Some(Structural::GoalMissing(_)), Verdict::SortGoalMissing(_)) => return out,
        (Some(Structural::Cycle), Verdict::SortCycle(_)) => return out,
        (Some(s), v) =>
        {
            out.push(Violation::new("C04", "invalid-rules-not-rejected", format!("model: {:?}; ruler: {}", s, v.short())));
            return out;
        },
        _ => {},
    }

    let mut expected : Vec<WErr> = vec![];
    for leaf in obs.eval.missing_leaves.iter() { expected.push(WErr::FileNotFound(leaf.clone())); }
    let mut skipped_sets : Vec<Vec<String>> = vec![];
    for s in obs.eval.status.iter()
    {
        match s
        {
            RuleStatus::CommandFails => expected.push(WErr::CommandErrored),
            RuleStatus::NotGenerated(paths) => skipped_sets.push(paths.clone()),
            _ => {},
        }
    }

    let got : Vec<WErr> = match &obs.verdict
    {
        Verdict::Ok => vec![],
        Verdict::WorkErrors(list) => list.clone(),
        other =>
        {
            out.push(Violation::new("C04", "unexpected-verdict", format!("ruler returned {} where the model expects work errors {:?}", other.short(), expected)));
            return out;
        },
    };

    let mut remaining = got.clone();
    for e in expected.iter()
    {
        match remaining.iter().position(|g| g == e)
        {
            Some(p) => { remaining.remove(p); },
            None => out.push(Violation::new("C04", "error-missing", format!("expected error {:?} was not reported; reported: {:?}", e, got))),
        }
    }
    for set in skipped_sets.iter()
    {
        match remaining.iter().position(|g| match g { WErr::NotGenerated(p) => set.contains(p), _ => false })
        {
            Some(p) => { remaining.remove(p); },
            None => out.push(Violation::new("C04", "error-missing", format!("expected a 'target not generated' error for one of {:?}; reported: {:?}", set, got))),
        }
    }
    for r in remaining.iter()
    {
        let signature = match r
        {
            WErr::Resolution(text) => format!("unexpected-error:Resolution:{}", text.split('(').next().unwrap_or("")),
            WErr::Contradiction(_) => "unexpected-error:Contradiction".to_string(),
            _ => "unexpected-error".to_string(),
        };
        out.push(Violation::new("C04", &signature, format!("error {:?} was reported but nothing in the model fails that way (expected {:?})", r, expected)));
    }

    // independent rules are brought up to date correctly
    if out.len() == 0 && !obs.verdict.is_ok()
    {
        for (i, s) in obs.eval.status.iter().enumerate()
        {
            if let RuleStatus::Ok(map) = s
            {
                for (path, (bytes, exec)) in map.iter()
                {
                    let have = obs.after.inode(path);
                    let _ = exec;
                    if have.map(|x| &x.data) != Some(bytes)
                    {
                        out.push(Violation::new("C04", "independent-rule-not-updated",
                            format!("rule #{} does not depend on any failure, but its target {} is {:?} instead of {:?}",
                                i, path, have.map(|x| show_bytes(&x.data)), show_bytes(bytes))));
                    }
                }
            }
        }
    }
    out
}

/* C05: the invocation came back with a value: no deadlock, panic, channel error */
pub fn m_live(obs : &Obs) -> Vec<Violation>
{
    let mut out = vec![];
    if let Some(d) = &obs.report.deadlock
    {
        out.push(Violation::new("C05", "deadlock", format!("{} deadlocked: {}", obs.kind, d)));
    }
    for p in obs.report.panics.iter()
    {
        out.push(Violation::new("C05", "thread-panic", format!("a worker thread panicked during {}: {}", obs.kind, p)));
    }
    if let Some(p) = &obs.report.main_panic
    {
        out.push(Violation::new("C05", "panic", format!("{} panicked: {}", obs.kind, p)));
    }
    if let Verdict::Internal(what) = &obs.verdict
    {
        out.push(Violation::new("C05", "internal-error", format!("{} returned the internal error {}", obs.kind, what)));
    }
    out
}

/* C20: banners vs what happened */
pub fn m_status(obs : &Obs) -> (Vec<Violation>, usize)
{
    let mut out = vec![];
    let mut judged = 0;
    if obs.kind != "build" { return (out, 0); }
    let completed = match &obs.verdict { Verdict::Ok | Verdict::WorkErrors(_) => true, _ => false };
    let cache_prefix = format!("{}/cache/", ruler_dir());

    for (text, path) in obs.print.banners.iter()
    {
        if text == "Outdated" || text == "Downloaded"
        {
            out.push(Violation::new("C20", "impossible-banner", format!("banner {:?} for {} (no download source exists, and an outdated target must be rebuilt)", text, path)));
        }
    }
    if !completed
    {
        if obs.eval.structural.is_some() && obs.print.banners.len() > 0
        {
            out.push(Violation::new("C20", "banner-for-rejected-rules", format!("banners {:?} although the rule set was rejected", obs.print.banners)));
        }
        return (out, 0);
    }

    let named : BTreeSet<String> = match &obs.verdict
    {
        Verdict::WorkErrors(list) => list.iter().flat_map(|e| match e
        {
            WErr::NotGenerated(p) => vec![p.clone()],
            WErr::Contradiction(ps) => ps.clone(),
            _ => vec![],
        }).collect(),
        _ => BTreeSet::new(),
    };

    for (i, rule) in obs.rules.iter().enumerate()
    {
        let finished = match &obs.eval.status[i]
        {
            RuleStatus::Ok(_) => !rule.targets().iter().any(|t| named.contains(t)),
            _ => false,
        };
        let ran = obs.ran.get(&i).cloned().unwrap_or(0) > 0;
        for t in rule.targets()
        {
            let banners : Vec<&String> = obs.print.banners.iter().filter(|(_, p)| *p == t).map(|(b, _)| b).collect();
            if !finished
            {
                if banners.len() > 0
                {
                    out.push(Violation::new("C20", "banner-for-unfinished-rule",
                        format!("target {} of a failed, cancelled or out-of-scope rule got banner(s) {:?}", t, banners)));
                }
                continue;
            }
            judged += 1;
            if banners.len() != 1
            {
                out.push(Violation::new("C20", "banner-count", format!("target {} got {} banners {:?}, expected exactly one", t, banners.len(), banners)));
                continue;
            }
            let restored = obs.log.iter().any(|e| e.op == Op::Rename && e.ok && e.who == Who::Ruler && e.p1.starts_with(&cache_prefix) && e.p2 == t);
            let touched = obs.log.iter().any(|e| e.ok && e.op.is_mutation() && (e.p1 == t || e.p2 == t));
            let expected = if ran { "Built" } else if restored { "Recovered" } else { "Up-to-date" };
            if banners[0] != expected
            {
                out.push(Violation::new("C20", "banner-wrong",
                    format!("target {} got banner {:?} but what happened is {:?} (command ran: {}, restored from cache: {}, touched: {})", t, banners[0], expected, ran, restored, touched)));
            }
            else if expected == "Up-to-date" && touched
            {
                out.push(Violation::new("C20", "uptodate-but-touched", format!("target {} reported Up-to-date but a mutating call touched it", t)));
            }
        }
    }
    (out, judged)
}

/* C02: at most once; not at all when the obligation holds; no-op rebuild touches nothing */
pub struct NoexecResult
{
    pub violations : Vec<Violation>,
    pub obligations : BTreeMap<String, u64>,
}

pub fn m_noexec(world : &World, obs : &Obs) -> NoexecResult
{
    let mut out = vec![];
    let mut kinds : BTreeMap<String, u64> = BTreeMap::new();
    if obs.kind != "build" { return NoexecResult { violations : out, obligations : kinds }; }

    for (i, count) in obs.ran.iter()
    {
        *kinds.entry("at-most-once".to_string()).or_insert(0) += 1;
        if *count > 1
        {
            out.push(Violation::new("C02", "command-ran-twice", format!("the command of rule #{} ran {} times in one build", i, count)));
        }
    }

    if obs.eval.structural.is_none() && !world.has_undeclared
    {
        let mut cache_count : BTreeMap<Vec<u8>, usize> = BTreeMap::new();
        for (_name, data) in cache_files(&obs.before) { *cache_count.entry(data).or_insert(0) += 1; }

        let mut needs : BTreeMap<usize, Vec<(String, Vec<u8>)>> = BTreeMap::new();
        let mut demand : BTreeMap<Vec<u8>, usize> = BTreeMap::new();
        for (i, rule) in obs.rules.iter().enumerate()
        {
            if !obs.eval.in_scope[i] { continue; }
            if let RuleStatus::Ok(_) = &obs.eval.status[i] {} else { continue; }
            let key = (rule.canon(), sources_key(&obs.eval.expected_sources[i]));
            if let Some(rec) = world.record.get(&key)
            {
                let mut need = vec![];
                for t in rule.targets()
                {
                    let wanted = match rec.get(&t) { Some(b) => b, None => continue };
                    if obs.before.read(&t) != Some(wanted)
                    {
                        need.push((t.clone(), wanted.clone()));
                        *demand.entry(wanted.clone()).or_insert(0) += 1;
                    }
                }
                needs.insert(i, need);
            }
        }
        for (i, need) in needs.iter()
        {
            let satisfiable = need.iter().all(|(_, b)|
            {
                let have = cache_count.get(b).cloned().unwrap_or(0);
                have >= 1 && demand.get(b).cloned().unwrap_or(0) <= have
            });
            if !satisfiable { continue; }
            let kind = if need.len() == 0 { "up-to-date" } else { "recoverable-from-cache" };
            *kinds.entry(kind.to_string()).or_insert(0) += 1;
            if obs.ran.get(i).cloned().unwrap_or(0) > 0
            {
                out.push(Violation::new("C02", &format!("unnecessary-rebuild:{}", kind),
                    format!("rule #{} ({}) ran its command although it was built before from identical sources and its targets were {}",
                        i, obs.rules[*i].targets().join(","), kind)));
            }
        }
    }

    // no-op rebuild
    if let Some((last_goal, last_scope)) = &world.fresh_build
    {
        let scope = obs.eval.scope_targets(&obs.rules);
        if scope.is_subset(last_scope) && !world.has_undeclared
        {
            *kinds.entry("noop-rebuild".to_string()).or_insert(0) += 1;
            let _ = last_goal;
            if obs.ran.len() > 0
            {
                out.push(Violation::new("C02", "noop-rebuild-ran-command", format!("a build repeated with nothing changed ran the commands of rules {:?}", obs.ran.keys().collect::<Vec<_>>())));
            }
            for e in obs.log.iter()
            {
                if e.ok && e.op.is_mutation() && !(is_ruler_path(&e.p1) && (e.p2 == "" || is_ruler_path(&e.p2)))
                {
                    out.push(Violation::new("C02", "noop-rebuild-modified-file",
                        format!("a build repeated with nothing changed performed {:?} {} {}", e.op, e.p1, e.p2)));
                    break;
                }
            }
            if !obs.verdict.is_ok()
            {
                out.push(Violation::new("C02", "noop-rebuild-failed", format!("a build repeated with nothing changed returned {}", obs.verdict.short())));
            }
        }
    }
    NoexecResult { violations : out, obligations : kinds }
}

/* C03: hand-off: every ticket sent equals the true hash of the producing file at that moment and of the model's bytes */
pub fn m_handoff(obs : &Obs) -> (Vec<Violation>, usize)
{
    let mut out = vec![];
    let mut judged = 0;
    let map = match &obs.nodemap { Some(m) => m, None => return (out, 0) };
    let files = user_files(&obs.before);
    let expected_targets = obs.eval.expected_targets();
    for e in obs.log.iter()
    {
        if e.op != Op::Send { continue; }
        let chan : usize = e.p2.parse().unwrap_or(usize::MAX);
        let (path, producer, consumer) = match map.chans.get(chan) { Some(c) => c.clone(), None => continue };
        if !e.ok
        {
            // a cancel is right iff the producer failed / was cancelled / the leaf is missing
            let producer_failed = match producer
            {
                Some(p) => match &obs.eval.status[p] { RuleStatus::Ok(_) => false, _ => true },
                None => obs.eval.missing_leaves.contains(&path),
            };
            judged += 1;
            if !producer_failed
            {
                // legitimate only if ruler itself failed this rule for a reason outside the model; C04 judges that
            }
            let _ = consumer;
            continue;
        }
        judged += 1;
        let truth_now = e.aux.clone();
        if truth_now.as_ref() != Some(&e.note)
        {
            out.push(Violation::new("C03", "handoff-hash-not-file",
                format!("ticket {} was handed to rule #{} for source {}, but the file's true hash at that moment is {:?}", e.note, consumer, path, truth_now)));
            continue;
        }
        let model_bytes = match producer
        {
            Some(_) => expected_targets.get(&path).map(|x| x.0.clone()),
            None => files.get(&path).cloned(),
        };
        if let Some(bytes) = model_bytes
        {
            if sha::name_of(&bytes) != e.note
            {
                out.push(Violation::new("C03", "handoff-hash-not-final",
                    format!("ticket {} handed over for source {} is not the hash of its final content {:?}", e.note, path, show_bytes(&bytes))));
            }
        }
    }
    (out, judged)
}

/* C03, second half: while a rule's command runs, nobody else modifies one of its declared sources */
pub fn m_stable(obs : &Obs) -> (Vec<Violation>, usize)
{
    let mut out = vec![];
    let mut windows = 0;
    let scripts : BTreeMap<String, usize> = obs.rules.iter().enumerate().map(|(i, r)| (r.script_text(), i)).collect();
    // open windows: (rule index, thread id)
    let mut open : Vec<(usize, usize)> = vec![];
    for e in obs.log.iter()
    {
        match e.op
        {
            Op::ExecBegin => { if let Some(i) = scripts.get(&e.note) { open.push((*i, e.tid)); windows += 1; } },
            Op::ExecEnd => { if let Some(i) = scripts.get(&e.note) { open.retain(|(r, t)| !(*r == *i && *t == e.tid)); } },
            _ =>
            {
                if e.ok && e.op.is_mutation()
                {
                    for (r, tid) in open.iter()
                    {
                        if e.tid == *tid { continue; }
                        let rule = &obs.rules[*r];
                        if rule.sources.iter().any(|s| *s == e.p1 || *s == e.p2)
                        {
                            out.push(Violation::new("C03", "source-modified-while-command-ran",
                                format!("while the command of rule #{} was running, thread t{} performed {:?} {} {} on one of its declared sources", r, e.tid, e.op, e.p1, e.p2)));
                        }
                    }
                }
            },
        }
    }
    (out, windows)
}

/* ------------------------------------------------------------------ helpers for evidence */

pub fn obs_summary(obs : &Obs) -> J
{
    J::obj(vec![
        ("kind", J::s(obs.kind)),
        ("goal", match &obs.goal { Some(g) => J::s(g), None => J::Null }),
        ("verdict", J::Str(obs.verdict.short())),
        ("commands_run", J::Arr(obs.ran.keys().map(|i| J::i(*i)).collect())),
        ("banners", J::Arr(obs.print.banners.iter().map(|(b, p)| J::Str(format!("{}: {}", b, p))).collect())),
        ("events", J::i(obs.log.len())),
        ("threads", J::i(obs.report.threads)),
        ("schedule_decisions", J::i(obs.report.choices.len())),
    ])
}
