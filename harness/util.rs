// Small self-contained helpers: deterministic RNG, hashing for dedup keys, a JSON emitter,
// environment parameters and the JSON-lines output channel to the orchestrator.

use std::fmt::Write as FmtWrite;
use std::io::Write;
use std::sync::Mutex;

#[derive(Clone, Debug)]
pub struct Rng(pub u64);

impl Rng
{
    pub fn new(seed : u64) -> Rng
    {
        Rng(seed ^ 0x9E3779B97F4A7C15)
    }

    pub fn next_u64(&mut self) -> u64
    {
        self.0 = self.0.wrapping_add(0x9E3779B97F4A7C15);
        let mut z = self.0;
        z = (z ^ (z >> 30)).wrapping_mul(0xBF58476D1CE4E5B9);
        z = (z ^ (z >> 27)).wrapping_mul(0x94D049BB133111EB);
        z ^ (z >> 31)
    }

    /* uniform in 0..n (n > 0) */
    pub fn below(&mut self, n : usize) -> usize
    {
        if n == 0 { return 0; }
        (self.next_u64() % (n as u64)) as usize
    }

    pub fn range(&mut self, lo : usize, hi_inclusive : usize) -> usize
    {
        lo + self.below(hi_inclusive - lo + 1)
    }

    pub fn chance(&mut self, num : usize, den : usize) -> bool
    {
        self.below(den) < num
    }

    pub fn pick<'a, T>(&mut self, items : &'a [T]) -> &'a T
    {
        &items[self.below(items.len())]
    }

    pub fn shuffle<T>(&mut self, items : &mut Vec<T>)
    {
        let n = items.len();
        for i in (1..n).rev()
        {
            let j = self.below(i + 1);
            items.swap(i, j);
        }
    }

    pub fn fork(&mut self) -> Rng
    {
        Rng::new(self.next_u64())
    }

    /* weighted choice: returns index */
    pub fn weighted(&mut self, weights : &[usize]) -> usize
    {
        let total : usize = weights.iter().sum();
        let mut x = self.below(total.max(1));
        for (i, w) in weights.iter().enumerate()
        {
            if x < *w { return i; }
            x -= *w;
        }
        weights.len() - 1
    }
}

pub fn mix(a : u64, b : u64) -> u64
{
    let mut r = Rng::new(a ^ b.rotate_left(32).wrapping_mul(0xD6E8FEB86659FD93));
    r.next_u64()
}

pub fn fnv64(bytes : &[u8]) -> u64
{
    let mut h : u64 = 0xcbf29ce484222325;
    for b in bytes
    {
        h ^= *b as u64;
        h = h.wrapping_mul(0x100000001b3);
    }
    h
}

pub fn fnv_str(s : &str) -> u64
{
    fnv64(s.as_bytes())
}

/* ---------------------------------------------------------------- JSON emitter */

#[derive(Clone, Debug)]
pub enum J
{
    Null,
    Bool(bool),
    Int(i64),
    Str(String),
    Arr(Vec<J>),
    Obj(Vec<(String, J)>),
}

impl J
{
    pub fn s(text : &str) -> J { J::Str(text.to_string()) }
    pub fn i(v : usize) -> J { J::Int(v as i64) }
    pub fn u(v : u64) -> J { J::Int(v as i64) }
    pub fn bytes(b : &[u8]) -> J { J::Str(show_bytes(b)) }
    pub fn strs(v : &[String]) -> J { J::Arr(v.iter().map(|s| J::Str(s.clone())).collect()) }
    pub fn obj(pairs : Vec<(&str, J)>) -> J
    {
        J::Obj(pairs.into_iter().map(|(k, v)| (k.to_string(), v)).collect())
    }

    pub fn render(&self) -> String
    {
        let mut out = String::new();
        self.render_into(&mut out);
        out
    }

    fn render_into(&self, out : &mut String)
    {
        match self
        {
            J::Null => out.push_str("null"),
            J::Bool(b) => out.push_str(if *b {"true"} else {"false"}),
            J::Int(i) => { let _ = write!(out, "{}", i); },
            J::Str(s) => render_str(s, out),
            J::Arr(items) =>
            {
                out.push('[');
                for (i, item) in items.iter().enumerate()
                {
                    if i > 0 { out.push(','); }
                    item.render_into(out);
                }
                out.push(']');
            },
            J::Obj(pairs) =>
            {
                out.push('{');
                for (i, (k, v)) in pairs.iter().enumerate()
                {
                    if i > 0 { out.push(','); }
                    render_str(k, out);
                    out.push(':');
                    v.render_into(out);
                }
                out.push('}');
            },
        }
    }
}

fn render_str(s : &str, out : &mut String)
{
    out.push('"');
    for c in s.chars()
    {
        match c
        {
            '"' => out.push_str("\\\""),
            '\\' => out.push_str("\\\\"),
            '\n' => out.push_str("\\n"),
            '\r' => out.push_str("\\r"),
            '\t' => out.push_str("\\t"),
            c if (c as u32) < 0x20 => { let _ = write!(out, "\\u{:04x}", c as u32); },
            c => out.push(c),
        }
    }
    out.push('"');
}

/* bytes shown as text when printable UTF-8, else hex */
pub fn show_bytes(b : &[u8]) -> String
{
    match std::str::from_utf8(b)
    {
        Ok(s) if s.chars().all(|c| !c.is_control() || c == '\n' || c == '\t') && b.len() <= 400 => s.to_string(),
        _ =>
        {
            let mut out = String::from("hex:");
            for x in b.iter().take(200) { let _ = write!(out, "{:02x}", x); }
            if b.len() > 200 { let _ = write!(out, "...({} bytes)", b.len()); }
            out
        }
    }
}

/* ---------------------------------------------------------------- parameters and output */

pub fn env_u64(name : &str, default : u64) -> u64
{
    match std::env::var(name)
    {
        Ok(v) => v.trim().parse::<u64>().unwrap_or(default),
        Err(_) => default,
    }
}

pub fn env_str(name : &str, default : &str) -> String
{
    std::env::var(name).unwrap_or(default.to_string())
}

static OUT_LOCK : Mutex<()> = Mutex::new(());

/* Append one JSON line to $VERIF_OUT (or stdout when unset). */
pub fn emit(j : &J)
{
    let _guard = OUT_LOCK.lock().unwrap_or_else(|e| e.into_inner());
    let line = j.render();
    match std::env::var("VERIF_OUT")
    {
        Ok(path) =>
        {
            let mut f = std::fs::OpenOptions::new().create(true).append(true).open(path).expect("open VERIF_OUT");
            let _ = writeln!(f, "{}", line);
        },
        Err(_) => println!("{}", line),
    }
}

/* A counter map with stable ordering for evidence. */
#[derive(Default, Clone)]
pub struct Counts(pub std::collections::BTreeMap<String, u64>);

impl Counts
{
    pub fn new() -> Counts { Counts(std::collections::BTreeMap::new()) }
    pub fn add(&mut self, k : &str, n : u64) { *self.0.entry(k.to_string()).or_insert(0) += n; }
    pub fn inc(&mut self, k : &str) { self.add(k, 1); }
    pub fn get(&self, k : &str) -> u64 { *self.0.get(k).unwrap_or(&0) }
    pub fn to_j(&self) -> J
    {
        J::Obj(self.0.iter().map(|(k, v)| (k.clone(), J::Int(*v as i64))).collect())
    }
}
