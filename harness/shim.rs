// Drop-in replacements for the parts of std::thread and std::sync::mpsc that build.rs uses.
//
//  * No context installed on the calling thread  -> plain std (ruler's own tests are unaffected).
//  * Free context (run_free)                      -> plain std primitives, but logical thread ids,
//                                                   channel indices and a send observer are tracked.
//  * Controlled context (run_controlled)          -> a cooperative scheduler: exactly one logical
//                                                   thread runs at a time, control changes hands
//                                                   only at yield points (spawn, thread start/finish,
//                                                   join, send, recv, and every VSys call), chosen by a
//                                                   seeded policy; the choice list identifies and
//                                                   replays the schedule; "no runnable thread" is a
//                                                   logically decided deadlock.

use std::any::Any;
use std::cell::RefCell;
use std::collections::VecDeque;
use std::panic::{catch_unwind, resume_unwind, AssertUnwindSafe};
use std::sync::atomic::{AtomicUsize, Ordering};
use std::sync::{Arc, Condvar, Mutex, MutexGuard, Once};

use crate::packet::Packet;
use crate::verif::util::Rng;

/* ------------------------------------------------------------------ observer */

pub trait SendObserver : Send + Sync
{
    /* ticket: Some(text form) for a ticket packet, None for a cancel packet */
    fn on_send(&self, tid : usize, chan : usize, ticket : Option<String>);
}

/* ------------------------------------------------------------------ context */

#[derive(Clone)]
pub enum Ctx
{
    Ctl(Arc<Sched>, usize),
    Free(Arc<FreeCtx>, usize),
}

thread_local!
{
    static CTX : RefCell<Option<Ctx>> = RefCell::new(None);
    static LAST_PANIC : RefCell<Option<String>> = RefCell::new(None);
    static QUIET : RefCell<bool> = RefCell::new(false);
}

fn get_ctx() -> Option<Ctx>
{
    CTX.with(|c| c.borrow().clone())
}

fn set_ctx(ctx : Option<Ctx>)
{
    CTX.with(|c| *c.borrow_mut() = ctx);
}

pub fn current_tid() -> usize
{
    match get_ctx()
    {
        Some(Ctx::Ctl(_, tid)) => tid,
        Some(Ctx::Free(_, tid)) => tid,
        None => 0,
    }
}

pub fn is_controlled() -> bool
{
    match get_ctx() { Some(Ctx::Ctl(_, _)) => true, _ => false }
}

/* Marker payload used to unwind logical threads when a scenario is aborted. */
pub struct AbortToken;

static HOOK_ONCE : Once = Once::new();

/*  Record panic messages of harness-managed threads instead of printing them; every other thread keeps
    the default behaviour. */
pub fn install_panic_hook()
{
    HOOK_ONCE.call_once(||
    {
        let previous = std::panic::take_hook();
        std::panic::set_hook(Box::new(move |info|
        {
            let managed = CTX.with(|c| c.borrow().is_some()) || QUIET.with(|q| *q.borrow());
            if managed
            {
                let message =
                    if let Some(s) = info.payload().downcast_ref::<&str>() { s.to_string() }
                    else if let Some(s) = info.payload().downcast_ref::<String>() { s.clone() }
                    else { "<non-string panic payload>".to_string() };
                let location = match info.location()
                {
                    Some(l) => format!("{}:{}", l.file(), l.line()),
                    None => "?".to_string(),
                };
                LAST_PANIC.with(|p| *p.borrow_mut() = Some(format!("{} @ {}", message, location)));
            }
            else
            {
                previous(info);
            }
        }));
    });
}

pub fn set_quiet(quiet : bool)
{
    QUIET.with(|q| *q.borrow_mut() = quiet);
}

pub fn take_last_panic() -> Option<String>
{
    LAST_PANIC.with(|p| p.borrow_mut().take())
}

fn payload_text(payload : &Box<dyn Any + Send>) -> Option<String>
{
    if payload.downcast_ref::<AbortToken>().is_some()
    {
        return None;
    }
    Some(match take_last_panic()
    {
        Some(text) => text,
        None =>
            if let Some(s) = payload.downcast_ref::<&str>() { s.to_string() }
            else if let Some(s) = payload.downcast_ref::<String>() { s.clone() }
            else { "<panic>".to_string() },
    })
}

/* ------------------------------------------------------------------ scheduler */

#[derive(Clone, Copy, PartialEq, Debug)]
enum Th
{
    Runnable,
    BlockedRecv(usize),
    BlockedJoin(usize),
    BlockedDrain,
    Finished,
}

#[derive(Clone, Debug)]
pub enum Policy
{
    /* uniform choice among runnable threads at every yield point */
    Random,
    /* PCT: random priorities, `depth` priority-change points within the first `horizon` steps */
    Pct(usize, u64),
    /* keep running the current thread; when it blocks take the lowest runnable id; preempt at the given steps */
    Serial(Vec<u64>),
    /* follow a recorded choice list */
    Replay(Vec<u32>),
}

struct ChanState
{
    queued : usize,
    senders : usize,
    receiver_alive : bool,
}

struct State
{
    cur : usize,
    th : Vec<Th>,
    prio : Vec<u64>,
    chans : Vec<ChanState>,
    rng : Rng,
    policy : Policy,
    change_points : Vec<u64>,
    low_prio : u64,
    choices : Vec<u32>,
    steps : u64,
    step_limit : u64,
    aborted : bool,
    deadlock : Option<String>,
    step_exceeded : bool,
    panics : Vec<String>,
    live_os_threads : usize,
    max_blocked : usize,
    replay_pos : usize,
    replay_diverged : bool,
    /* one condition variable per logical thread: a hand-off wakes only the thread that gets the baton */
    cvs : Vec<Arc<Condvar>>,
}

pub struct Sched
{
    st : Mutex<State>,
    exit_cv : Condvar,
    observer : Option<Arc<dyn SendObserver>>,
}

fn wake_all(st : &State)
{
    for cv in st.cvs.iter() { cv.notify_all(); }
}

#[derive(Clone, Debug, Default)]
pub struct RunReport
{
    pub choices : Vec<u32>,
    pub steps : u64,
    pub threads : usize,
    pub channels : usize,
    pub deadlock : Option<String>,
    pub step_exceeded : bool,
    pub panics : Vec<String>,
    pub main_panic : Option<String>,
    pub aborted : bool,
    pub max_blocked : usize,
    pub replay_diverged : bool,
}

impl RunReport
{
    pub fn schedule_hash(&self) -> u64
    {
        let mut bytes = Vec::with_capacity(self.choices.len() * 2);
        for c in self.choices.iter()
        {
            bytes.push((*c & 0xff) as u8);
            bytes.push((*c >> 8) as u8);
        }
        crate::verif::util::fnv64(&bytes)
    }
}

impl Sched
{
    fn lock(&self) -> MutexGuard<'_, State>
    {
        self.st.lock().unwrap_or_else(|e| e.into_inner())
    }

    fn describe_blocked(st : &State) -> String
    {
        let mut parts = vec![];
        for (tid, th) in st.th.iter().enumerate()
        {
            match th
            {
                Th::BlockedRecv(ch) => parts.push(format!("t{} waits recv on channel {}", tid, ch)),
                Th::BlockedJoin(other) => parts.push(format!("t{} waits join of t{}", tid, other)),
                Th::BlockedDrain => parts.push(format!("t{} waits for remaining threads", tid)),
                _ => {},
            }
        }
        parts.join("; ")
    }

    /* Choose the next thread among the runnable ones.  Caller holds the lock. */
    fn pick(st : &mut State, me : usize) -> Option<usize>
    {
        let candidates : Vec<usize> = st.th.iter().enumerate()
            .filter(|(_, t)| **t == Th::Runnable).map(|(i, _)| i).collect();

        let blocked = st.th.iter().filter(|t| match t { Th::BlockedRecv(_) | Th::BlockedJoin(_) => true, _ => false }).count();
        if blocked > st.max_blocked { st.max_blocked = blocked; }

        if candidates.len() == 0
        {
            return None;
        }
        if candidates.len() == 1
        {
            return Some(candidates[0]);
        }

        let step = st.steps;
        let next = match &st.policy
        {
            Policy::Random =>
            {
                let i = st.rng.below(candidates.len());
                candidates[i]
            },
            Policy::Pct(_, _) =>
            {
                if st.change_points.contains(&step) && st.th[me] == Th::Runnable
                {
                    st.low_prio = st.low_prio.saturating_sub(1);
                    st.prio[me] = st.low_prio;
                }
                let mut best = candidates[0];
                for c in candidates.iter()
                {
                    if st.prio[*c] > st.prio[best] { best = *c; }
                }
                best
            },
            Policy::Serial(preempt_at) =>
            {
                let preempt = preempt_at.contains(&step);
                if st.th[me] == Th::Runnable && !preempt
                {
                    me
                }
                else if preempt
                {
                    let others : Vec<usize> = candidates.iter().cloned().filter(|c| *c != me).collect();
                    if others.len() == 0 { me } else { let i = st.rng.below(others.len()); others[i] }
                }
                else
                {
                    candidates[0]
                }
            },
            Policy::Replay(list) =>
            {
                let wanted = list.get(st.replay_pos).cloned();
                st.replay_pos += 1;
                match wanted
                {
                    Some(w) if candidates.contains(&(w as usize)) => w as usize,
                    _ =>
                    {
                        st.replay_diverged = true;
                        candidates[0]
                    }
                }
            },
        };
        st.choices.push(next as u32);
        Some(next)
    }

    /*  Called by the running thread `me` (which may just have marked itself blocked or finished): hand the
        baton to the next thread and wait until it comes back. */
    fn reschedule(&self, me : usize)
    {
        let mut st = self.lock();
        if st.aborted
        {
            if st.th[me] == Th::Finished { return; }
            drop(st);
            resume_unwind(Box::new(AbortToken));
        }

        st.steps += 1;
        if st.steps > st.step_limit
        {
            st.step_exceeded = true;
            st.aborted = true;
            wake_all(&st);
            if st.th[me] == Th::Finished { return; }
            drop(st);
            resume_unwind(Box::new(AbortToken));
        }

        match Sched::pick(&mut st, me)
        {
            Some(next) =>
            {
                st.cur = next;
                if next != me
                {
                    st.cvs[next].notify_all();
                }
            },
            None =>
            {
                let unfinished = st.th.iter().any(|t| *t != Th::Finished);
                if unfinished
                {
                    st.deadlock = Some(Sched::describe_blocked(&st));
                    st.aborted = true;
                    wake_all(&st);
                    if st.th[me] == Th::Finished { return; }
                    drop(st);
                    resume_unwind(Box::new(AbortToken));
                }
                return;
            },
        }

        if st.th[me] == Th::Finished
        {
            return;
        }

        let cv = st.cvs[me].clone();
        while !(st.aborted || (st.cur == me && st.th[me] == Th::Runnable))
        {
            st = cv.wait(st).unwrap_or_else(|e| e.into_inner());
        }
        if st.aborted
        {
            drop(st);
            resume_unwind(Box::new(AbortToken));
        }
    }

    fn block_on(&self, me : usize, why : Th)
    {
        {
            let mut st = self.lock();
            st.th[me] = why;
        }
        self.reschedule(me);
    }

    /* A freshly spawned OS thread waits here for its first turn.  Err = scenario aborted. */
    fn wait_first_turn(&self, me : usize) -> Result<(), ()>
    {
        let mut st = self.lock();
        let cv = st.cvs[me].clone();
        while !(st.aborted || (st.cur == me && st.th[me] == Th::Runnable))
        {
            st = cv.wait(st).unwrap_or_else(|e| e.into_inner());
        }
        if st.aborted { Err(()) } else { Ok(()) }
    }

    fn finish(&self, me : usize, panic_text : Option<String>)
    {
        {
            let mut st = self.lock();
            st.th[me] = Th::Finished;
            if let Some(text) = panic_text
            {
                st.panics.push(format!("t{}: {}", me, text));
            }
            for i in 0..st.th.len()
            {
                if st.th[i] == Th::BlockedJoin(me)
                {
                    st.th[i] = Th::Runnable;
                }
            }
            let others_done = st.th.iter().enumerate().all(|(i, t)| i == 0 || *t == Th::Finished);
            if others_done && st.th[0] == Th::BlockedDrain
            {
                st.th[0] = Th::Runnable;
            }
            if st.aborted
            {
                wake_all(&st);
                return;
            }
            if st.cur != me
            {
                // cannot happen in a healthy run: only the baton holder executes
                return;
            }
        }
        self.reschedule(me);
    }

    fn os_thread_exit(&self)
    {
        let mut st = self.lock();
        st.live_os_threads -= 1;
        self.exit_cv.notify_all();
    }
}

/*  A scheduling point.  No-op without a controlled context and while unwinding. */
pub fn yield_point()
{
    if std::thread::panicking()
    {
        return;
    }
    match get_ctx()
    {
        Some(Ctx::Ctl(sched, me)) => sched.reschedule(me),
        Some(Ctx::Free(ctx, _)) => ctx.jitter(),
        None => {},
    }
}

/*  Run `f` as logical thread 0 under the scheduler; afterwards run every other logical thread to completion
    (build() can return early while rule threads are alive; their effects belong to the observed execution). */
pub fn run_controlled<R>(
    policy : Policy,
    seed : u64,
    observer : Option<Arc<dyn SendObserver>>,
    step_limit : u64,
    f : impl FnOnce() -> R) -> (Option<R>, RunReport)
{
    install_panic_hook();
    let mut rng = Rng::new(seed);
    let mut change_points = vec![];
    if let Policy::Pct(depth, horizon) = &policy
    {
        for _ in 0..*depth
        {
            change_points.push(1 + (rng.next_u64() % (*horizon).max(1)));
        }
    }
    let first_prio = 1_000_000 + rng.next_u64() % 1_000_000;
    let sched = Arc::new(Sched
    {
        st : Mutex::new(State
        {
            cur : 0,
            th : vec![Th::Runnable],
            prio : vec![first_prio],
            chans : vec![],
            rng : rng,
            policy : policy,
            change_points : change_points,
            low_prio : 1000,
            choices : vec![],
            steps : 0,
            step_limit : step_limit,
            aborted : false,
            deadlock : None,
            step_exceeded : false,
            panics : vec![],
            live_os_threads : 0,
            max_blocked : 0,
            replay_pos : 0,
            replay_diverged : false,
            cvs : vec![Arc::new(Condvar::new())],
        }),
        exit_cv : Condvar::new(),
        observer : observer,
    });

    let saved = get_ctx();
    set_ctx(Some(Ctx::Ctl(sched.clone(), 0)));
    let result = catch_unwind(AssertUnwindSafe(f));
    let mut main_panic = None;
    let value = match result
    {
        Ok(v) => Some(v),
        Err(payload) =>
        {
            main_panic = payload_text(&payload);
            None
        },
    };

    // drain: let every remaining logical thread run to completion
    let drained = catch_unwind(AssertUnwindSafe(||
    {
        loop
        {
            {
                let mut st = sched.lock();
                if st.aborted { break; }
                let others_done = st.th.iter().enumerate().all(|(i, t)| i == 0 || *t == Th::Finished);
                if others_done { break; }
                st.th[0] = Th::BlockedDrain;
            }
            sched.reschedule(0);
        }
    }));
    let _ = drained;

    // release everybody in case of abort and wait for the OS threads to be gone
    {
        let mut st = sched.lock();
        st.th[0] = Th::Finished;
        let all_done = st.th.iter().all(|t| *t == Th::Finished);
        if !all_done
        {
            st.aborted = true;
        }
        wake_all(&st);
        while st.live_os_threads > 0
        {
            let (guard, _timeout) = sched.exit_cv.wait_timeout(st, std::time::Duration::from_millis(200)).unwrap_or_else(|e| e.into_inner());
            st = guard;
            wake_all(&st);
        }
    }
    set_ctx(saved);

    let st = sched.lock();
    let report = RunReport
    {
        choices : st.choices.clone(),
        steps : st.steps,
        threads : st.th.len(),
        channels : st.chans.len(),
        deadlock : st.deadlock.clone(),
        step_exceeded : st.step_exceeded,
        panics : st.panics.clone(),
        main_panic : main_panic,
        aborted : st.aborted,
        max_blocked : st.max_blocked,
        replay_diverged : st.replay_diverged,
    };
    (value, report)
}

/* ------------------------------------------------------------------ free-running context */

pub struct FreeCtx
{
    next_tid : AtomicUsize,
    next_chan : AtomicUsize,
    panics : Mutex<Vec<String>>,
    observer : Option<Arc<dyn SendObserver>>,
    jitter_seed : u64,
    jitter_counter : AtomicUsize,
    jitter_on : bool,
}

impl FreeCtx
{
    fn jitter(&self)
    {
        if !self.jitter_on { return; }
        let n = self.jitter_counter.fetch_add(1, Ordering::Relaxed) as u64;
        let r = crate::verif::util::mix(self.jitter_seed, n ^ ((current_tid() as u64) << 40));
        match r % 8
        {
            0 | 1 | 2 => std::thread::yield_now(),
            3 => std::thread::sleep(std::time::Duration::from_micros(20 + (r >> 8) % 200)),
            _ => {},
        }
    }
}

#[derive(Clone, Debug, Default)]
pub struct FreeReport
{
    pub threads : usize,
    pub channels : usize,
    pub panics : Vec<String>,
    pub main_panic : Option<String>,
}

/*  Run `f` with ruler's threads on real OS threads and std channels (exactly as shipped), only with logical
    ids, a send observer and optional random jitter at the System calls. */
pub fn run_free<R>(
    seed : u64,
    jitter : bool,
    observer : Option<Arc<dyn SendObserver>>,
    f : impl FnOnce() -> R) -> (Option<R>, FreeReport)
{
    install_panic_hook();
    let ctx = Arc::new(FreeCtx
    {
        next_tid : AtomicUsize::new(1),
        next_chan : AtomicUsize::new(0),
        panics : Mutex::new(vec![]),
        observer : observer,
        jitter_seed : seed,
        jitter_counter : AtomicUsize::new(0),
        jitter_on : jitter,
    });
    let saved = get_ctx();
    set_ctx(Some(Ctx::Free(ctx.clone(), 0)));
    let result = catch_unwind(AssertUnwindSafe(f));
    set_ctx(saved);
    let mut main_panic = None;
    let value = match result
    {
        Ok(v) => Some(v),
        Err(payload) => { main_panic = payload_text(&payload); None },
    };
    let report = FreeReport
    {
        threads : ctx.next_tid.load(Ordering::SeqCst),
        channels : ctx.next_chan.load(Ordering::SeqCst),
        panics : ctx.panics.lock().unwrap_or_else(|e| e.into_inner()).clone(),
        main_panic : main_panic,
    };
    (value, report)
}

/* ------------------------------------------------------------------ packet observation */

fn observe_packet<T : 'static>(value : T) -> (T, Option<Option<String>>)
{
    let mut slot = Some(value);
    let mut seen = None;
    {
        let any : &mut dyn Any = &mut slot;
        if let Some(p) = any.downcast_mut::<Option<Packet>>()
        {
            let packet = p.take().unwrap();
            match packet.get_ticket()
            {
                Ok(ticket) =>
                {
                    seen = Some(Some(ticket.human_readable()));
                    *p = Some(Packet::from_ticket(ticket));
                },
                Err(_) =>
                {
                    seen = Some(None);
                    *p = Some(Packet::cancel());
                },
            }
        }
    }
    (slot.take().unwrap(), seen)
}

/* ------------------------------------------------------------------ thread */

pub mod thread
{
    use super::*;

    pub struct JoinHandle<T>
    {
        real : std::thread::JoinHandle<T>,
        ctl : Option<(Arc<Sched>, usize)>,
    }

    impl<T> JoinHandle<T>
    {
        pub fn join(self) -> std::thread::Result<T>
        {
            if let Some((sched, target)) = &self.ctl
            {
                if let Some(Ctx::Ctl(_, me)) = get_ctx()
                {
                    if !std::thread::panicking()
                    {
                        loop
                        {
                            {
                                let st = sched.lock();
                                if st.th[*target] == Th::Finished || st.aborted { break; }
                            }
                            sched.block_on(me, Th::BlockedJoin(*target));
                        }
                    }
                }
            }
            self.real.join()
        }
    }

    pub fn spawn<F, T>(f : F) -> JoinHandle<T>
    where F : FnOnce() -> T + Send + 'static, T : Send + 'static
    {
        match get_ctx()
        {
            None =>
            {
                JoinHandle { real : std::thread::spawn(f), ctl : None }
            },

            Some(Ctx::Free(ctx, _parent)) =>
            {
                let tid = ctx.next_tid.fetch_add(1, Ordering::SeqCst);
                let ctx2 = ctx.clone();
                let real = std::thread::spawn(move ||
                {
                    set_ctx(Some(Ctx::Free(ctx2.clone(), tid)));
                    ctx2.jitter();
                    match catch_unwind(AssertUnwindSafe(f))
                    {
                        Ok(v) => v,
                        Err(payload) =>
                        {
                            if let Some(text) = payload_text(&payload)
                            {
                                ctx2.panics.lock().unwrap_or_else(|e| e.into_inner()).push(format!("t{}: {}", tid, text));
                            }
                            resume_unwind(payload)
                        },
                    }
                });
                JoinHandle { real : real, ctl : None }
            },

            Some(Ctx::Ctl(sched, _parent)) =>
            {
                let tid =
                {
                    let mut st = sched.lock();
                    st.th.push(Th::Runnable);
                    let p = 1_000_000 + st.rng.next_u64() % 1_000_000;
                    st.prio.push(p);
                    st.cvs.push(Arc::new(Condvar::new()));
                    st.live_os_threads += 1;
                    st.th.len() - 1
                };
                let sched2 = sched.clone();
                let real = std::thread::spawn(move ||
                {
                    set_ctx(Some(Ctx::Ctl(sched2.clone(), tid)));
                    struct ExitGuard(Arc<Sched>);
                    impl Drop for ExitGuard { fn drop(&mut self) { self.0.os_thread_exit(); } }
                    let _guard = ExitGuard(sched2.clone());

                    if sched2.wait_first_turn(tid).is_err()
                    {
                        {
                            let mut st = sched2.lock();
                            st.th[tid] = Th::Finished;
                        }
                        resume_unwind(Box::new(AbortToken));
                    }
                    let result = catch_unwind(AssertUnwindSafe(f));
                    match result
                    {
                        Ok(v) =>
                        {
                            // finish() may unwind with AbortToken only if the scenario is being aborted
                            let _ = catch_unwind(AssertUnwindSafe(|| sched2.finish(tid, None)));
                            v
                        },
                        Err(payload) =>
                        {
                            let text = payload_text(&payload);
                            let _ = catch_unwind(AssertUnwindSafe(|| sched2.finish(tid, text)));
                            resume_unwind(payload)
                        },
                    }
                });
                yield_point();
                JoinHandle { real : real, ctl : Some((sched, tid)) }
            },
        }
    }
}

/* ------------------------------------------------------------------ mpsc */

pub mod mpsc
{
    use super::*;
    pub use std::sync::mpsc::{RecvError, SendError};

    enum SenderKind<T>
    {
        Std(std::sync::mpsc::Sender<T>, Option<(Arc<FreeCtx>, usize)>),
        Ctl(Arc<Sched>, usize, Arc<Mutex<VecDeque<T>>>),
    }

    pub struct Sender<T>
    {
        kind : SenderKind<T>,
    }

    enum ReceiverKind<T>
    {
        Std(std::sync::mpsc::Receiver<T>),
        Ctl(Arc<Sched>, usize, Arc<Mutex<VecDeque<T>>>),
    }

    pub struct Receiver<T>
    {
        kind : ReceiverKind<T>,
    }

    pub fn channel<T>() -> (Sender<T>, Receiver<T>)
    {
        match get_ctx()
        {
            None =>
            {
                let (s, r) = std::sync::mpsc::channel();
                (Sender { kind : SenderKind::Std(s, None) }, Receiver { kind : ReceiverKind::Std(r) })
            },
            Some(Ctx::Free(ctx, _)) =>
            {
                let index = ctx.next_chan.fetch_add(1, Ordering::SeqCst);
                let (s, r) = std::sync::mpsc::channel();
                (Sender { kind : SenderKind::Std(s, Some((ctx, index))) }, Receiver { kind : ReceiverKind::Std(r) })
            },
            Some(Ctx::Ctl(sched, _)) =>
            {
                let index =
                {
                    let mut st = sched.lock();
                    st.chans.push(ChanState { queued : 0, senders : 1, receiver_alive : true });
                    st.chans.len() - 1
                };
                let queue = Arc::new(Mutex::new(VecDeque::new()));
                (
                    Sender { kind : SenderKind::Ctl(sched.clone(), index, queue.clone()) },
                    Receiver { kind : ReceiverKind::Ctl(sched, index, queue) },
                )
            },
        }
    }

    impl<T : 'static> Sender<T>
    {
        pub fn send(&self, value : T) -> Result<(), SendError<T>>
        {
            match &self.kind
            {
                SenderKind::Std(sender, None) => sender.send(value),

                SenderKind::Std(sender, Some((ctx, index))) =>
                {
                    ctx.jitter();
                    let (value, seen) = observe_packet(value);
                    if let (Some(ticket), Some(observer)) = (seen, &ctx.observer)
                    {
                        observer.on_send(current_tid(), *index, ticket);
                    }
                    let result = sender.send(value);
                    ctx.jitter();
                    result
                },

                SenderKind::Ctl(sched, index, queue) =>
                {
                    yield_point();
                    let (value, seen) = observe_packet(value);
                    {
                        let mut st = sched.lock();
                        if !st.chans[*index].receiver_alive
                        {
                            return Err(SendError(value));
                        }
                        queue.lock().unwrap_or_else(|e| e.into_inner()).push_back(value);
                        st.chans[*index].queued += 1;
                        for i in 0..st.th.len()
                        {
                            if st.th[i] == Th::BlockedRecv(*index)
                            {
                                st.th[i] = Th::Runnable;
                            }
                        }
                    }
                    if let (Some(ticket), Some(observer)) = (seen, &sched.observer)
                    {
                        observer.on_send(current_tid(), *index, ticket);
                    }
                    yield_point();
                    Ok(())
                },
            }
        }
    }

    impl<T> Drop for Sender<T>
    {
        fn drop(&mut self)
        {
            if let SenderKind::Ctl(sched, index, _) = &self.kind
            {
                let mut st = sched.lock();
                st.chans[*index].senders -= 1;
                if st.chans[*index].senders == 0
                {
                    for i in 0..st.th.len()
                    {
                        if st.th[i] == Th::BlockedRecv(*index)
                        {
                            st.th[i] = Th::Runnable;
                        }
                    }
                }
            }
        }
    }

    impl<T> Receiver<T>
    {
        pub fn recv(&self) -> Result<T, RecvError>
        {
            match &self.kind
            {
                ReceiverKind::Std(receiver) =>
                {
                    let result = receiver.recv();
                    if let Some(Ctx::Free(ctx, _)) = get_ctx() { ctx.jitter(); }
                    result
                },

                ReceiverKind::Ctl(sched, index, queue) =>
                {
                    yield_point();
                    loop
                    {
                        {
                            let mut st = sched.lock();
                            let popped = queue.lock().unwrap_or_else(|e| e.into_inner()).pop_front();
                            match popped
                            {
                                Some(value) =>
                                {
                                    st.chans[*index].queued -= 1;
                                    return Ok(value);
                                },
                                None =>
                                {
                                    if st.chans[*index].senders == 0
                                    {
                                        return Err(RecvError);
                                    }
                                },
                            }
                        }
                        if std::thread::panicking()
                        {
                            return Err(RecvError);
                        }
                        match get_ctx()
                        {
                            Some(Ctx::Ctl(_, me)) => sched.block_on(me, Th::BlockedRecv(*index)),
                            _ => return Err(RecvError),
                        }
                    }
                },
            }
        }
    }

    impl<T> Drop for Receiver<T>
    {
        fn drop(&mut self)
        {
            if let ReceiverKind::Ctl(sched, index, queue) = &self.kind
            {
                let mut st = sched.lock();
                st.chans[*index].receiver_alive = false;
                st.chans[*index].queued = 0;
                let drained : Vec<T> = queue.lock().unwrap_or_else(|e| e.into_inner()).drain(..).collect();
                drop(st);
                drop(drained);
            }
        }
    }
}
