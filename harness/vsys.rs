// VSys: an instrumented in-memory implementation of ruler's `System` trait.
//
// One mutex guards the file model, the clock, the event log and the online monitors, so the log
// order is the order of effects and a monitor's view is atomic with the state it shadows.
// Every call starts with a scheduler yield point (outside the lock).

use std::collections::{BTreeMap, HashMap};
use std::fmt;
use std::io;
use std::sync::{Arc, Mutex, MutexGuard};
use std::time::{Duration, SystemTime};

use crate::system::{CommandLineOutput, CommandScript, System, SystemError};
use crate::verif::shim::{self, SendObserver};
use crate::verif::util::Rng;

/*  The ruler directory of the current workspace.  Most workspaces use ".ruler"; some use a nested path, as
    `ruler --directory meta/.ruler` allows.  One workspace is alive per process at a time (two identical ones in the
    paired driver), so a process-wide setting is enough. */
pub const RULER_DIRS : &[&str] = &[".ruler", "meta/.ruler", "out/.state"];
static RULER_DIR_INDEX : std::sync::atomic::AtomicUsize = std::sync::atomic::AtomicUsize::new(0);

pub fn ruler_dir() -> &'static str
{
    RULER_DIRS[RULER_DIR_INDEX.load(std::sync::atomic::Ordering::SeqCst) % RULER_DIRS.len()]
}

pub fn set_ruler_dir(index : usize)
{
    RULER_DIR_INDEX.store(index % RULER_DIRS.len(), std::sync::atomic::Ordering::SeqCst);
}

#[derive(Clone, Debug, PartialEq)]
pub struct Inode
{
    pub data : Vec<u8>,
    pub mtime : u64,
    pub exec : bool,
}

#[derive(Clone, Debug, PartialEq)]
pub enum Node
{
    Dir,
    File(u64),
}

/* The part of the state that a crash preserves. */
#[derive(Clone, Debug, PartialEq)]
pub struct Disk
{
    pub nodes : BTreeMap<String, Node>,
    pub inodes : BTreeMap<u64, Inode>,
    pub next_ino : u64,
    pub now : u64,
}

#[derive(Clone, Copy, Debug, PartialEq)]
pub enum Clock
{
    /* every mutation that sets a modification time takes a fresh timestamp */
    Distinct,
    /* the clock only moves when the driver ticks it (once per user action / ruler invocation) */
    Coarse,
}

#[derive(Clone, Copy, Debug, PartialEq)]
pub enum Who
{
    Ruler,
    Cmd,
    User,
}

#[derive(Clone, Copy, Debug, PartialEq)]
pub enum Op
{
    Open, Read, CreateFile, Write, CreateDir, IsDir, IsFile, ListDir, Rename, GetModified, IsExec, SetExec,
    RemoveFile, RemoveDir, ExecBegin, ExecEnd, CmdRead, CmdWrite, Send,
}

impl Op
{
    pub fn is_mutation(&self) -> bool
    {
        match self
        {
            Op::CreateFile | Op::Write | Op::CreateDir | Op::Rename | Op::SetExec | Op::RemoveFile
            | Op::RemoveDir | Op::CmdWrite => true,
            _ => false,
        }
    }
}

#[derive(Clone, Debug)]
pub struct Event
{
    pub seq : usize,
    pub tid : usize,
    pub who : Who,
    pub op : Op,
    pub p1 : String,
    pub p2 : String,
    pub ok : bool,
    /* Rename: fnv of moved bytes; Send: ticket text or "cancel"; ExecBegin: script text */
    pub note : String,
    /* Rename / CmdWrite: Some(true) destination existed with the same bytes, Some(false) with different bytes */
    pub dest_same : Option<bool>,
    /* Send: true hash name of the producing path at the time of the send (None if the file is missing) */
    pub aux : Option<String>,
}

#[derive(Clone, Debug)]
pub struct Expect
{
    pub rule_index : usize,
    /* false: the model says this rule is cancelled, its command must not run */
    pub may_run : bool,
    pub sources : Vec<(String, Option<Vec<u8>>)>,
}

#[derive(Clone, Debug)]
pub struct OnlineViolation
{
    pub property : String,
    pub what : String,
    pub seq : usize,
}

#[derive(Clone, Debug)]
pub struct Snapshot
{
    /* number of mutations that had completed when this state existed */
    pub index : usize,
    /* the mutation that was about to happen (or was torn) */
    pub pending : String,
    /* Some(k): additionally the first k bytes of the pending write had reached the disk */
    pub torn : Option<usize>,
    pub disk : Disk,
}

pub struct Fs
{
    pub disk : Disk,
    pub clock : Clock,
    pub log : Vec<Event>,
    pub logging : bool,
    pub short_reads : bool,
    pub rng : Rng,
    /* command script text -> expectation for M-ready */
    pub expect : HashMap<String, Expect>,
    /* channel index -> path whose ticket travels on it */
    pub chan_paths : Vec<String>,
    pub online : Vec<OnlineViolation>,
    pub recording : bool,
    pub snapshots : Vec<Snapshot>,
    pub mutations : usize,
    /* true while a command runs on a given logical thread: tid -> depth */
    pub in_cmd : HashMap<usize, usize>,
    /* paths ruler may touch in the current invocation (None = monitor off) */
    pub scope_paths : Option<std::collections::BTreeSet<String>>,
    /* fail injection: make the n-th ruler-issued rename fail (testing only) */
    pub ticks_per_mutation : u64,
    /* files ruler cannot open for reading (mode 000, another user's file): `open` fails, everything else works */
    pub unreadable : std::collections::BTreeSet<u64>,
}

pub struct VInner
{
    pub fs : Mutex<Fs>,
}

#[derive(Clone)]
pub struct VSys(pub Arc<VInner>);

impl fmt::Debug for VSys
{
    fn fmt(&self, f : &mut fmt::Formatter) -> fmt::Result { write!(f, "VSys") }
}

pub fn parent_of(path : &str) -> String
{
    match path.rfind('/')
    {
        Some(i) => path[..i].to_string(),
        None => "".to_string(),
    }
}

fn norm(path : &str) -> String
{
    let mut p = path;
    while p.starts_with("./") { p = &p[2..]; }
    if p == "." { return "".to_string(); }
    p.trim_end_matches('/').to_string()
}

impl Disk
{
    pub fn new() -> Disk
    {
        Disk
        {
            nodes : BTreeMap::new(),
            inodes : BTreeMap::new(),
            next_ino : 1,
            now : 1_700_000_000_000_000,
        }
    }

    pub fn is_dir(&self, path : &str) -> bool
    {
        let p = norm(path);
        p == "" || self.nodes.get(&p) == Some(&Node::Dir)
    }

    pub fn is_file(&self, path : &str) -> bool
    {
        match self.nodes.get(&norm(path)) { Some(Node::File(_)) => true, _ => false }
    }

    pub fn ino(&self, path : &str) -> Option<u64>
    {
        match self.nodes.get(&norm(path)) { Some(Node::File(i)) => Some(*i), _ => None }
    }

    pub fn read(&self, path : &str) -> Option<&Vec<u8>>
    {
        self.ino(path).and_then(|i| self.inodes.get(&i)).map(|n| &n.data)
    }

    pub fn inode(&self, path : &str) -> Option<&Inode>
    {
        self.ino(path).and_then(|i| self.inodes.get(&i))
    }

    pub fn children(&self, path : &str) -> Vec<String>
    {
        let p = norm(path);
        let prefix = if p == "" { "".to_string() } else { format!("{}/", p) };
        self.nodes.keys()
            .filter(|k| k.starts_with(&prefix) && k.len() > prefix.len() && !k[prefix.len()..].contains('/'))
            .cloned().collect()
    }

    /* every file path (not directories) under a prefix ("" = everything) */
    pub fn files_under(&self, path : &str) -> Vec<String>
    {
        let p = norm(path);
        let prefix = if p == "" { "".to_string() } else { format!("{}/", p) };
        self.nodes.iter()
            .filter(|(k, n)| k.starts_with(&prefix) && match n { Node::File(_) => true, _ => false })
            .map(|(k, _)| k.clone()).collect()
    }

    pub fn mkdirs(&mut self, path : &str)
    {
        let p = norm(path);
        if p == "" { return; }
        let mut cur = String::new();
        for part in p.split('/')
        {
            if cur.len() > 0 { cur.push('/'); }
            cur.push_str(part);
            if !self.nodes.contains_key(&cur)
            {
                self.nodes.insert(cur.clone(), Node::Dir);
            }
        }
    }

    /* user-level write: new inode, creates parents */
    pub fn put(&mut self, path : &str, data : &[u8], mtime : u64, exec : bool)
    {
        let p = norm(path);
        self.mkdirs(&parent_of(&p));
        let ino = self.next_ino;
        self.next_ino += 1;
        self.inodes.insert(ino, Inode { data : data.to_vec(), mtime : mtime, exec : exec });
        self.nodes.insert(p, Node::File(ino));
    }

    pub fn remove_tree(&mut self, path : &str)
    {
        let p = norm(path);
        let prefix = format!("{}/", p);
        let doomed : Vec<String> = self.nodes.keys().filter(|k| **k == p || k.starts_with(&prefix)).cloned().collect();
        for k in doomed
        {
            self.nodes.remove(&k);
        }
    }

    /* drop inodes that no path refers to (open handles to them become inert) */
    pub fn gc(&mut self)
    {
        let live : std::collections::BTreeSet<u64> = self.nodes.values()
            .filter_map(|n| match n { Node::File(i) => Some(*i), _ => None }).collect();
        self.inodes.retain(|k, _| live.contains(k));
    }

    /* path -> (bytes, mtime, exec) for every file outside the given prefix */
    pub fn view(&self) -> BTreeMap<String, Inode>
    {
        let mut out = BTreeMap::new();
        for (k, n) in self.nodes.iter()
        {
            if let Node::File(i) = n
            {
                if let Some(inode) = self.inodes.get(i)
                {
                    out.insert(k.clone(), inode.clone());
                }
            }
        }
        out
    }
}

fn to_system_time(timestamp : u64) -> SystemTime
{
    SystemTime::UNIX_EPOCH + Duration::from_secs(timestamp / 1_000_000) + Duration::from_micros(timestamp % 1_000_000)
}

impl Fs
{
    fn stamp(&mut self) -> u64
    {
        if self.clock == Clock::Distinct
        {
            self.disk.now += self.ticks_per_mutation;
        }
        self.disk.now
    }

    fn who(&self) -> Who
    {
        if self.in_cmd.get(&shim::current_tid()).cloned().unwrap_or(0) > 0 { Who::Cmd } else { Who::Ruler }
    }

    fn log_event(&mut self, who : Who, op : Op, p1 : &str, p2 : &str, ok : bool, note : &str, dest_same : Option<bool>, aux : Option<String>)
    {
        if !self.logging { return; }
        let seq = self.log.len();
        self.log.push(Event
        {
            seq : seq,
            tid : shim::current_tid(),
            who : who,
            op : op,
            p1 : p1.to_string(),
            p2 : p2.to_string(),
            ok : ok,
            note : note.to_string(),
            dest_same : dest_same,
            aux : aux,
        });
    }

    /* crash recorder: call before applying a mutation */
    fn before_mutation(&mut self, description : &str)
    {
        if self.recording
        {
            let mut disk = self.disk.clone();
            disk.gc();
            self.snapshots.push(Snapshot { index : self.mutations, pending : description.to_string(), torn : None, disk : disk });
        }
        self.mutations += 1;
    }

    fn scope_check(&mut self, who : Who, op : Op, path : &str)
    {
        if who != Who::Ruler { return; }
        let inside = match &self.scope_paths
        {
            None => return,
            Some(paths) =>
            {
                let p = norm(path);
                p == ruler_dir() || p.starts_with(&format!("{}/", ruler_dir())) || paths.contains(&p)
            },
        };
        if !inside
        {
            let seq = self.log.len();
            self.online.push(OnlineViolation
            {
                property : "C09".to_string(),
                what : format!("ruler issued {:?} on out-of-scope path {}", op, path),
                seq : seq,
            });
        }
    }

    fn do_rename(&mut self, who : Who, from : &str, to : &str) -> Result<(), SystemError>
    {
        let f = norm(from);
        let t = norm(to);
        let src = self.disk.nodes.get(&f).cloned();
        let result : Result<Option<bool>, SystemError> = (||
        {
            let src = match &src { Some(n) => n.clone(), None => return Err(SystemError::NotFound) };
            if !self.disk.is_dir(&parent_of(&t)) { return Err(SystemError::NotFound); }
            if f == t { return Ok(None); }
            let dst = self.disk.nodes.get(&t).cloned();
            match (&src, &dst)
            {
                (Node::File(_), Some(Node::Dir)) => return Err(SystemError::Weird),
                (Node::Dir, Some(Node::File(_))) => return Err(SystemError::Weird),
                (Node::Dir, Some(Node::Dir)) =>
                {
                    if self.disk.children(&t).len() > 0 { return Err(SystemError::Weird); }
                },
                _ => {},
            }
            if let Node::Dir = src
            {
                if t.starts_with(&format!("{}/", f)) { return Err(SystemError::Weird); }
            }
            let same = match (&src, &dst)
            {
                (Node::File(a), Some(Node::File(b))) =>
                    Some(self.disk.inodes.get(a).map(|x| &x.data) == self.disk.inodes.get(b).map(|x| &x.data)),
                _ => None,
            };
            Ok(same)
        })();

        match result
        {
            Err(error) =>
            {
                self.log_event(who, Op::Rename, from, to, false, "", None, None);
                Err(error)
            },
            Ok(same) =>
            {
                self.scope_check(who, Op::Rename, from);
                self.scope_check(who, Op::Rename, to);
                let note = match src
                {
                    Some(Node::File(i)) => format!("{:016x}", crate::verif::util::fnv64(&self.disk.inodes.get(&i).map(|x| x.data.clone()).unwrap_or(vec![]))),
                    _ => "dir".to_string(),
                };
                if f != t
                {
                    self.before_mutation(&format!("rename {} -> {}", from, to));
                    if who == Who::Ruler && same == Some(false)
                    {
                        let in_ruler_state = t == format!("{}/current_file_states", ruler_dir()) || t.starts_with(&format!("{}/history/", ruler_dir()));
                        if !in_ruler_state
                        {
                            let seq = self.log.len();
                            self.online.push(OnlineViolation
                            {
                                property : "C08".to_string(),
                                what : format!("ruler renamed {} over {} which held different bytes", from, to),
                                seq : seq,
                            });
                        }
                    }
                    let prefix = format!("{}/", f);
                    let moving : Vec<(String, Node)> = self.disk.nodes.iter()
                        .filter(|(k, _)| **k == f || k.starts_with(&prefix))
                        .map(|(k, v)| (k.clone(), v.clone())).collect();
                    self.disk.nodes.remove(&t);
                    for (k, v) in moving
                    {
                        self.disk.nodes.remove(&k);
                        let nk = format!("{}{}", t, &k[f.len()..]);
                        self.disk.nodes.insert(nk, v);
                    }
                }
                self.log_event(who, Op::Rename, from, to, true, &note, same, None);
                Ok(())
            },
        }
    }

    /* atomic replacement of a file by a command: new inode, fresh timestamp */
    fn cmd_write(&mut self, path : &str, data : &[u8], exec : bool) -> bool
    {
        let p = norm(path);
        if !self.disk.is_dir(&parent_of(&p)) || self.disk.is_dir(&p) && p != ""
        {
            self.log_event(Who::Cmd, Op::CmdWrite, path, "", false, "", None, None);
            return false;
        }
        let same = self.disk.read(&p).map(|old| old.as_slice() == data);
        self.before_mutation(&format!("command writes {}", path));
        let mtime = self.stamp();
        let ino = self.disk.next_ino;
        self.disk.next_ino += 1;
        self.disk.inodes.insert(ino, Inode { data : data.to_vec(), mtime : mtime, exec : exec });
        self.disk.nodes.insert(p, Node::File(ino));
        self.log_event(Who::Cmd, Op::CmdWrite, path, "", true, "", same, None);
        true
    }
}

/* ------------------------------------------------------------------ file handles */

pub struct VFile
{
    sys : VSys,
    ino : u64,
    pos : usize,
    writable : bool,
    path : String,
}

impl fmt::Debug for VFile
{
    fn fmt(&self, f : &mut fmt::Formatter) -> fmt::Result { write!(f, "VFile({})", self.path) }
}

impl io::Read for VFile
{
    fn read(&mut self, buf : &mut [u8]) -> io::Result<usize>
    {
        shim::yield_point();
        let mut fs = self.sys.lock();
        if self.writable
        {
            return Err(io::Error::new(io::ErrorKind::Other, "read on a write handle"));
        }
        let short = fs.short_reads;
        let draw = if short { fs.rng.next_u64() } else { 0 };
        let n = match fs.disk.inodes.get(&self.ino)
        {
            None => 0,
            Some(inode) =>
            {
                let available = if self.pos < inode.data.len() { inode.data.len() - self.pos } else { 0 };
                let mut n = available.min(buf.len());
                if short && n > 1
                {
                    n = 1 + (draw as usize) % n;
                }
                buf[..n].copy_from_slice(&inode.data[self.pos..self.pos + n]);
                n
            },
        };
        self.pos += n;
        let who = fs.who();
        let path = self.path.clone();
        fs.log_event(who, Op::Read, &path, "", true, "", None, None);
        Ok(n)
    }
}

impl io::Write for VFile
{
    fn write(&mut self, buf : &[u8]) -> io::Result<usize>
    {
        shim::yield_point();
        let mut fs = self.sys.lock();
        if !self.writable
        {
            return Err(io::Error::new(io::ErrorKind::Other, "write on a read handle"));
        }
        let who = fs.who();
        let path = self.path.clone();
        if !fs.disk.inodes.contains_key(&self.ino)
        {
            // unlinked and collected: the bytes go nowhere
            self.pos += buf.len();
            return Ok(buf.len());
        }

        // crash recorder: state before the write, and torn variants
        if fs.recording
        {
            let index = fs.mutations;
            let mut base = fs.disk.clone();
            base.gc();
            let description = format!("write {} bytes to {}", buf.len(), path);
            fs.snapshots.push(Snapshot { index : index, pending : description.clone(), torn : None, disk : base.clone() });
            let mut cuts = vec![];
            if buf.len() >= 2
            {
                cuts.push(1);
                if buf.len() / 2 > 1 { cuts.push(buf.len() / 2); }
                if buf.len() - 1 > buf.len() / 2 { cuts.push(buf.len() - 1); }
            }
            for cut in cuts
            {
                let mut torn = base.clone();
                if let Some(inode) = torn.inodes.get_mut(&self.ino)
                {
                    write_at(&mut inode.data, self.pos, &buf[..cut]);
                }
                fs.snapshots.push(Snapshot { index : index, pending : description.clone(), torn : Some(cut), disk : torn });
            }
            fs.mutations += 1;
        }
        else
        {
            fs.mutations += 1;
        }

        let mtime = fs.stamp();
        let pos = self.pos;
        if let Some(inode) = fs.disk.inodes.get_mut(&self.ino)
        {
            write_at(&mut inode.data, pos, buf);
            inode.mtime = mtime;
        }
        self.pos += buf.len();
        fs.log_event(who, Op::Write, &path, "", true, "", None, None);
        Ok(buf.len())
    }

    fn flush(&mut self) -> io::Result<()>
    {
        Ok(())
    }
}

fn write_at(data : &mut Vec<u8>, pos : usize, buf : &[u8])
{
    if pos > data.len() { data.resize(pos, 0); }
    let overlap = buf.len().min(data.len() - pos);
    data[pos..pos + overlap].copy_from_slice(&buf[..overlap]);
    data.extend_from_slice(&buf[overlap..]);
}

/* ------------------------------------------------------------------ VSys proper */

impl VSys
{
    pub fn new(clock : Clock, seed : u64) -> VSys
    {
        VSys::from_disk(Disk::new(), clock, seed)
    }

    pub fn from_disk(disk : Disk, clock : Clock, seed : u64) -> VSys
    {
        VSys(Arc::new(VInner
        {
            fs : Mutex::new(Fs
            {
                disk : disk,
                clock : clock,
                log : vec![],
                logging : true,
                short_reads : false,
                rng : Rng::new(seed),
                expect : HashMap::new(),
                chan_paths : vec![],
                online : vec![],
                recording : false,
                snapshots : vec![],
                mutations : 0,
                in_cmd : HashMap::new(),
                scope_paths : None,
                ticks_per_mutation : 7,
            unreadable : std::collections::BTreeSet::new(),
            }),
        }))
    }

    pub fn lock(&self) -> MutexGuard<'_, Fs>
    {
        self.0.fs.lock().unwrap_or_else(|e| e.into_inner())
    }

    pub fn disk(&self) -> Disk
    {
        self.lock().disk.clone()
    }

    /* advance the clock between user actions / invocations */
    /*  Time passes between user actions and invocations: usually a few milliseconds (scripts, editors saving and
        building at once), sometimes seconds.  Only the order matters to the clock models. */
    pub fn tick(&self)
    {
        let mut fs = self.lock();
        let r = fs.rng.next_u64();
        fs.disk.now += if r % 5 == 0 { 1_000_000 + (r >> 8) % 3_000_000 } else { 1_500 + (r >> 8) % 4_000 };
    }

    pub fn take_log(&self) -> Vec<Event>
    {
        let mut fs = self.lock();
        std::mem::replace(&mut fs.log, vec![])
    }

    pub fn take_online(&self) -> Vec<OnlineViolation>
    {
        let mut fs = self.lock();
        std::mem::replace(&mut fs.online, vec![])
    }

    /* ---- user operations (never attributed to ruler) ---- */

    pub fn user_write(&self, path : &str, data : &[u8], exec : bool)
    {
        let mut fs = self.lock();
        let mtime = fs.stamp();
        fs.disk.put(path, data, mtime, exec);
        fs.log_event(Who::User, Op::CreateFile, path, "", true, "", None, None);
    }

    pub fn user_remove(&self, path : &str)
    {
        let mut fs = self.lock();
        fs.disk.remove_tree(path);
        fs.log_event(Who::User, Op::RemoveFile, path, "", true, "", None, None);
    }

    /* like `mv`: the file keeps its modification time and permission */
    pub fn user_move(&self, from : &str, to : &str) -> bool
    {
        let mut fs = self.lock();
        let ino = match fs.disk.ino(from) { Some(i) => i, None => return false };
        let t = norm(to);
        fs.disk.mkdirs(&parent_of(&t));
        fs.disk.nodes.remove(&norm(from));
        fs.disk.nodes.insert(t, Node::File(ino));
        fs.log_event(Who::User, Op::Rename, from, to, true, "", None, None);
        true
    }

    /* like `rmdir`: only an empty directory goes away */
    pub fn user_rmdir(&self, path : &str) -> bool
    {
        let mut fs = self.lock();
        let p = norm(path);
        match fs.disk.nodes.get(&p)
        {
            Some(Node::Dir) if fs.disk.children(&p).len() == 0 =>
            {
                fs.disk.nodes.remove(&p);
                fs.log_event(Who::User, Op::RemoveDir, path, "", true, "", None, None);
                true
            },
            _ => false,
        }
    }

    /* like `chmod 000` / `chmod 644` by the user */
    pub fn user_set_unreadable(&self, path : &str, unreadable : bool) -> bool
    {
        let mut fs = self.lock();
        match fs.disk.ino(path)
        {
            Some(ino) => { if unreadable { fs.unreadable.insert(ino); } else { fs.unreadable.remove(&ino); } true },
            None => false,
        }
    }

    pub fn any_unreadable(&self) -> bool
    {
        let fs = self.lock();
        let live : std::collections::BTreeSet<u64> = fs.disk.nodes.values().filter_map(|n| match n { Node::File(i) => Some(*i), _ => None }).collect();
        fs.unreadable.iter().any(|i| live.contains(i))
    }

    pub fn is_dir_now(&self, path : &str) -> bool
    {
        self.lock().disk.is_dir(&norm(path))
    }

    pub fn user_mkdirs(&self, path : &str)
    {
        let mut fs = self.lock();
        fs.disk.mkdirs(path);
    }

    pub fn read_file(&self, path : &str) -> Option<Vec<u8>>
    {
        self.lock().disk.read(path).cloned()
    }
}

impl SendObserver for VSys
{
    fn on_send(&self, tid : usize, chan : usize, ticket : Option<String>)
    {
        let mut fs = self.lock();
        let path = fs.chan_paths.get(chan).cloned().unwrap_or("?".to_string());
        let truth = fs.disk.read(&path).map(|bytes| crate::verif::sha::name_of(bytes));
        let note = match &ticket { Some(t) => t.clone(), None => "cancel".to_string() };
        if !fs.logging { return; }
        let seq = fs.log.len();
        fs.log.push(Event
        {
            seq : seq, tid : tid, who : Who::Ruler, op : Op::Send, p1 : path, p2 : format!("{}", chan),
            ok : ticket.is_some(), note : note, dest_same : None, aux : truth,
        });
    }
}

impl System for VSys
{
    type File = VFile;

    fn open(&self, path : &str) -> Result<VFile, SystemError>
    {
        shim::yield_point();
        let mut fs = self.lock();
        let who = fs.who();
        let p = norm(path);
        let result = match fs.disk.nodes.get(&p)
        {
            Some(Node::File(ino)) => if fs.unreadable.contains(ino) { Err(SystemError::Weird) } else { Ok(*ino) },
            Some(Node::Dir) => Err(SystemError::DirectoryInPlaceOfFile(p.clone())),
            None => if p == "" { Err(SystemError::DirectoryInPlaceOfFile(p.clone())) } else { Err(SystemError::NotFound) },
        };
        fs.log_event(who, Op::Open, path, "", result.is_ok(), "", None, None);
        match result
        {
            Ok(ino) => Ok(VFile { sys : self.clone(), ino : ino, pos : 0, writable : false, path : p }),
            Err(e) => Err(e),
        }
    }

    fn create_file(&mut self, path : &str) -> Result<VFile, SystemError>
    {
        shim::yield_point();
        let mut fs = self.lock();
        let who = fs.who();
        let p = norm(path);
        if p == "" || !fs.disk.is_dir(&parent_of(&p))
        {
            fs.log_event(who, Op::CreateFile, path, "", false, "", None, None);
            return Err(SystemError::NotFound);
        }
        if fs.disk.is_dir(&p)
        {
            fs.log_event(who, Op::CreateFile, path, "", false, "", None, None);
            return Err(SystemError::Weird);
        }
        fs.scope_check(who, Op::CreateFile, path);
        let existing = fs.disk.ino(&p);
        if who == Who::Ruler
        {
            if let Some(ino) = existing
            {
                let nonempty = fs.disk.inodes.get(&ino).map(|x| x.data.len() > 0).unwrap_or(false);
                let in_ruler_state = p.starts_with(&format!("{}/", ruler_dir())) && !p.starts_with(&format!("{}/cache/", ruler_dir()));
                if nonempty && !in_ruler_state
                {
                    let seq = fs.log.len();
                    fs.online.push(OnlineViolation
                    {
                        property : "C08".to_string(),
                        what : format!("ruler truncated existing file {}", path),
                        seq : seq,
                    });
                }
            }
        }
        fs.before_mutation(&format!("create_file {}", path));
        let mtime = fs.stamp();
        let ino = match existing
        {
            Some(ino) =>
            {
                if let Some(inode) = fs.disk.inodes.get_mut(&ino)
                {
                    inode.data.clear();
                    inode.mtime = mtime;
                }
                ino
            },
            None =>
            {
                let ino = fs.disk.next_ino;
                fs.disk.next_ino += 1;
                fs.disk.inodes.insert(ino, Inode { data : vec![], mtime : mtime, exec : false });
                fs.disk.nodes.insert(p.clone(), Node::File(ino));
                ino
            },
        };
        fs.log_event(who, Op::CreateFile, path, "", true, "", None, None);
        Ok(VFile { sys : self.clone(), ino : ino, pos : 0, writable : true, path : p })
    }

    fn create_dir(&mut self, path : &str) -> Result<(), SystemError>
    {
        shim::yield_point();
        let mut fs = self.lock();
        let who = fs.who();
        let p = norm(path);
        let result =
            if p == "" || fs.disk.nodes.contains_key(&p) { Err(SystemError::Weird) }
            else if !fs.disk.is_dir(&parent_of(&p)) { Err(SystemError::NotFound) }
            else { Ok(()) };
        if result.is_ok()
        {
            fs.scope_check(who, Op::CreateDir, path);
            fs.before_mutation(&format!("create_dir {}", path));
            fs.disk.nodes.insert(p, Node::Dir);
        }
        fs.log_event(who, Op::CreateDir, path, "", result.is_ok(), "", None, None);
        result
    }

    fn is_dir(&self, path : &str) -> bool
    {
        shim::yield_point();
        let mut fs = self.lock();
        let who = fs.who();
        let result = fs.disk.is_dir(path);
        fs.log_event(who, Op::IsDir, path, "", result, "", None, None);
        result
    }

    fn is_file(&self, path : &str) -> bool
    {
        shim::yield_point();
        let mut fs = self.lock();
        let who = fs.who();
        let result = fs.disk.is_file(path);
        fs.log_event(who, Op::IsFile, path, "", result, "", None, None);
        result
    }

    fn remove_file(&mut self, path : &str) -> Result<(), SystemError>
    {
        shim::yield_point();
        let mut fs = self.lock();
        let who = fs.who();
        let p = norm(path);
        let result = match fs.disk.nodes.get(&p)
        {
            Some(Node::File(_)) => Ok(()),
            Some(Node::Dir) => Err(SystemError::RemoveFileFoundDir),
            None => Err(SystemError::NotFound),
        };
        if result.is_ok()
        {
            fs.scope_check(who, Op::RemoveFile, path);
            fs.before_mutation(&format!("remove_file {}", path));
            fs.disk.nodes.remove(&p);
        }
        fs.log_event(who, Op::RemoveFile, path, "", result.is_ok(), "", None, None);
        result
    }

    fn remove_dir(&mut self, path : &str) -> Result<(), SystemError>
    {
        shim::yield_point();
        let mut fs = self.lock();
        let who = fs.who();
        let p = norm(path);
        let result = match fs.disk.nodes.get(&p)
        {
            Some(Node::Dir) => if fs.disk.children(&p).len() == 0 { Ok(()) } else { Err(SystemError::Weird) },
            Some(Node::File(_)) => Err(SystemError::ExpectedDirFoundFile),
            None => Err(SystemError::NotFound),
        };
        if result.is_ok()
        {
            fs.scope_check(who, Op::RemoveDir, path);
            fs.before_mutation(&format!("remove_dir {}", path));
            fs.disk.nodes.remove(&p);
        }
        fs.log_event(who, Op::RemoveDir, path, "", result.is_ok(), "", None, None);
        result
    }

    fn list_dir(&self, path : &str) -> Result<Vec<String>, SystemError>
    {
        shim::yield_point();
        let mut fs = self.lock();
        let who = fs.who();
        let result =
            if fs.disk.is_dir(path) { Ok(fs.disk.children(path)) }
            else if fs.disk.is_file(path) { Err(SystemError::ExpectedDirFoundFile) }
            else { Err(SystemError::NotFound) };
        fs.log_event(who, Op::ListDir, path, "", result.is_ok(), "", None, None);
        result
    }

    fn rename(&mut self, from : &str, to : &str) -> Result<(), SystemError>
    {
        shim::yield_point();
        let mut fs = self.lock();
        let who = fs.who();
        fs.do_rename(who, from, to)
    }

    fn get_modified(&self, path : &str) -> Result<SystemTime, SystemError>
    {
        shim::yield_point();
        let mut fs = self.lock();
        let who = fs.who();
        let result = match fs.disk.inode(path)
        {
            Some(inode) => Ok(to_system_time(inode.mtime)),
            None => if fs.disk.is_dir(path) { Ok(to_system_time(1_600_000_000_000_000)) } else { Err(SystemError::MetadataNotFound) },
        };
        fs.log_event(who, Op::GetModified, path, "", result.is_ok(), "", None, None);
        result
    }

    fn is_executable(&self, path : &str) -> Result<bool, SystemError>
    {
        shim::yield_point();
        let mut fs = self.lock();
        let who = fs.who();
        let result = match fs.disk.inode(path)
        {
            Some(inode) => Ok(inode.exec),
            None => if fs.disk.is_dir(path) { Ok(true) } else { Err(SystemError::MetadataNotFound) },
        };
        fs.log_event(who, Op::IsExec, path, "", result.is_ok(), "", None, None);
        result
    }

    fn set_is_executable(&mut self, path : &str, executable : bool) -> Result<(), SystemError>
    {
        shim::yield_point();
        let mut fs = self.lock();
        let who = fs.who();
        let ino = fs.disk.ino(path);
        let result = match ino
        {
            Some(ino) =>
            {
                fs.scope_check(who, Op::SetExec, path);
                fs.before_mutation(&format!("set_is_executable {} {}", path, executable));
                if let Some(inode) = fs.disk.inodes.get_mut(&ino) { inode.exec = executable; }
                Ok(())
            },
            None => Err(SystemError::MetadataNotFound),
        };
        fs.log_event(who, Op::SetExec, path, "", result.is_ok(), "", None, None);
        result
    }

    fn execute_command(&mut self, command_script : CommandScript) -> Vec<Result<CommandLineOutput, SystemError>>
    {
        shim::yield_point();
        let text = format!("{}", command_script);
        let tid = shim::current_tid();
        {
            let mut fs = self.lock();
            fs.log_event(Who::Ruler, Op::ExecBegin, "", "", true, &text, None, None);
            // M-ready: every declared source must hold its final bytes now
            if let Some(expect) = fs.expect.get(&text).cloned()
            {
                let seq = fs.log.len();
                if !expect.may_run
                {
                    fs.online.push(OnlineViolation
                    {
                        property : "C04".to_string(),
                        what : format!("command of rule #{} ran although a prerequisite failed or is missing: {}", expect.rule_index, text),
                        seq : seq,
                    });
                    // the same event seen from C03: a source whose producer failed is not final and correct
                    fs.online.push(OnlineViolation
                    {
                        property : "C03".to_string(),
                        what : format!("command of rule #{} started although one of its sources was not completely built (its producer failed, did not generate it, or a leaf is missing): {}", expect.rule_index, text),
                        seq : seq,
                    });
                }
                else
                {
                    for (path, wanted) in expect.sources.iter()
                    {
                        let have = fs.disk.read(path).cloned();
                        if &have != wanted
                        {
                            fs.online.push(OnlineViolation
                            {
                                property : "C03".to_string(),
                                what : format!("command of rule #{} started while source {} held {} instead of {}",
                                    expect.rule_index, path,
                                    match &have { Some(b) => crate::verif::util::show_bytes(b), None => "<missing>".to_string() },
                                    match wanted { Some(b) => crate::verif::util::show_bytes(b), None => "<missing>".to_string() }),
                                seq : seq,
                            });
                        }
                    }
                }
            }
            *fs.in_cmd.entry(tid).or_insert(0) += 1;
        }

        let mut results = vec![];
        for (step_index, line) in command_script.lines.iter().enumerate()
        {
            let output = crate::verif::model::run_script_line(self, line, step_index);
            if output.err == crate::verif::model::CANNOT_EXECUTE
            {
                // like the real system: the error ends the script
                results.push(Err(SystemError::CommandExecutationFailed("cannot start the command".to_string())));
                break;
            }
            results.push(Ok(output));
        }

        {
            let mut fs = self.lock();
            if let Some(depth) = fs.in_cmd.get_mut(&tid) { *depth -= 1; }
            fs.log_event(Who::Ruler, Op::ExecEnd, "", "", true, &text, None, None);
        }
        results
    }
}

/* Operations used by the command interpreter (issuer = Cmd). */
impl VSys
{
    pub fn cmd_read(&self, path : &str) -> Option<Vec<u8>>
    {
        shim::yield_point();
        let mut fs = self.lock();
        let data = fs.disk.read(path).cloned();
        fs.log_event(Who::Cmd, Op::CmdRead, path, "", data.is_some(), "", None, None);
        data
    }

    pub fn cmd_write(&self, path : &str, data : &[u8], exec : bool) -> bool
    {
        shim::yield_point();
        let mut fs = self.lock();
        fs.cmd_write(path, data, exec)
    }
}
