// Verification harness for ruler, compiled into ruler's own test binary when the cargo feature
// `verif` is on (see /verif/DESIGN.md, section 3).  Nothing in here is part of ruler.
#![allow(dead_code)]
#![allow(unused_imports)]

pub mod util;
pub mod sha;
pub mod shim;
pub mod vsys;
pub mod model;
pub mod gen;
pub mod world;
pub mod drivers;
