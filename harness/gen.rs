// Generators: rule graphs (random and shape presets) and rule edits.

use std::collections::BTreeSet;

use crate::verif::model::{GRule, OutSpec};
use crate::verif::util::Rng;

pub const TARGET_POOL : &[&str] = &[
    "a", "b", "c", "d", "e", "f", "g", "h", "k", "m", "z", "y", "x", "0t", "Zt",
    "out/a", "out/b", "out/c", "out/z", "out/0", "gen/a", "gen/q", "gen/z", "gen/sub/a", "gen/sub/z", "bin/tool", "bin/a",
    // names whose position differs between the bundle notation (directory first, then its children) and plain string
    // order: '.', '-' and ' ' sort below '/'
    "out.log", "out-x", "gen.d", "gen/sub.txt", "gen/sub-1", "bin.lst",
    // not ASCII: two and three bytes per character in the paths ruler stores in its state files and hashes into identities
    "gen/é", "ü", "out/日",
];

pub const LEAF_POOL : &[&str] = &[
    "s1", "s2", "s3", "s4", "0leaf", "zleaf", "src/u", "src/v", "src/w", "in/p", "in/q", "in/deep/r", "src.cfg", "in-2", "src/ñ",
    // hidden files whose names are a target name with dots in front
    ".a", "..c",
];

pub const UNDECLARED_POOL : &[&str] = &["env/one", "env/two", "hidden"];

pub const DECOYS : &[&str] = &["README", "out/.keep", "src/u.bak", "a.orig", "gen/notes", "build.rules.bak"];

#[derive(Clone, Debug)]
pub struct Graph
{
    pub rules : Vec<GRule>,
    pub leaves : Vec<String>,
    pub shape : String,
}

fn full_mask(n : usize) -> u32
{
    if n >= 32 { u32::MAX } else { (1u32 << n) - 1 }
}

fn make_rule(rng : &mut Rng, outs : Vec<String>, sources : Vec<String>, salt_counter : &mut u64) -> GRule
{
    *salt_counter += 1;
    let n = sources.len();
    let mut specs = vec![];
    for (i, path) in outs.iter().enumerate()
    {
        // different targets depend on different subsets of the sources
        let mut mask = full_mask(n);
        if outs.len() > 1 && n > 1 && rng.chance(2, 3)
        {
            mask = 0;
            for b in 0..n { if rng.chance(1, 2) { mask |= 1 << b; } }
            if mask == 0 { mask = 1 << (i % n); }
        }
        specs.push(OutSpec { path : path.clone(), raw : false, mask : mask, exec : rng.chance(1, 5) });
    }
    GRule
    {
        outs : specs,
        sources : sources,
        undeclared : vec![],
        salt : format!("k{}", salt_counter),
        garbage : false,
        split : outs.len() >= 2 && rng.chance(1, 4),
        precheck : rng.chance(1, 6),
    }
}

fn take_unused(rng : &mut Rng, pool : &[&str], used : &mut BTreeSet<String>) -> Option<String>
{
    let free : Vec<&&str> = pool.iter().filter(|p| !used.contains(**p)).collect();
    if free.len() == 0 { return None; }
    let name = free[rng.below(free.len())].to_string();
    used.insert(name.clone());
    Some(name)
}

pub fn random_graph(rng : &mut Rng, max_rules : usize) -> Graph
{
    let n = rng.range(1, max_rules.max(1));
    let mut used = BTreeSet::new();
    let mut rules : Vec<GRule> = vec![];
    let mut salt = 0u64;
    let mut produced : Vec<String> = vec![];
    let mut leaves : BTreeSet<String> = BTreeSet::new();

    for _ in 0..n
    {
        let nt = 1 + rng.weighted(&[6, 3, 1]);
        let mut outs = vec![];
        for _ in 0..nt
        {
            if let Some(name) = take_unused(rng, TARGET_POOL, &mut used) { outs.push(name); }
        }
        if outs.len() == 0 { break; }

        let ns = 1 + rng.weighted(&[4, 4, 2, 1]);
        let mut sources : Vec<String> = vec![];
        for _ in 0..ns
        {
            let use_produced = produced.len() > 0 && rng.chance(3, 5);
            let candidate = if use_produced
            {
                // bias towards later targets of multi-target rules: pick uniformly over all produced targets
                produced[rng.below(produced.len())].clone()
            }
            else
            {
                LEAF_POOL[rng.below(LEAF_POOL.len())].to_string()
            };
            if !sources.contains(&candidate)
            {
                if !use_produced { leaves.insert(candidate.clone()); }
                sources.push(candidate);
            }
        }
        let rule = make_rule(rng, outs.clone(), sources, &mut salt);
        produced.extend(outs);
        rules.push(rule);
    }
    rng.shuffle(&mut rules);
    Graph { rules : rules, leaves : leaves.into_iter().collect(), shape : "random".to_string() }
}

fn names(rng : &mut Rng, count : usize) -> Vec<String>
{
    let mut used = BTreeSet::new();
    let mut out = vec![];
    for _ in 0..count
    {
        out.push(take_unused(rng, TARGET_POOL, &mut used).unwrap());
    }
    out
}

fn leafs(rng : &mut Rng, count : usize) -> Vec<String>
{
    let mut pool : Vec<String> = LEAF_POOL.iter().map(|s| s.to_string()).collect();
    rng.shuffle(&mut pool);
    pool.truncate(count);
    pool
}

fn graph_from(shape : &str, mut rules : Vec<GRule>, rng : &mut Rng) -> Graph
{
    let produced : BTreeSet<String> = rules.iter().flat_map(|r| r.targets()).collect();
    let mut leaves = BTreeSet::new();
    for r in rules.iter() { for s in r.sources.iter() { if !produced.contains(s) { leaves.insert(s.clone()); } } }
    rng.shuffle(&mut rules);
    Graph { rules : rules, leaves : leaves.into_iter().collect(), shape : shape.to_string() }
}

pub const SHAPES : &[&str] = &[
    "chain", "diamond", "triangle", "fan_in", "fan_out", "components", "twins", "second_target", "wide_multi", "k4", "copies", "two_of_one",
];

pub fn preset_graph(rng : &mut Rng, shape : &str) -> Graph
{
    let mut salt = 100u64;
    match shape
    {
        "chain" =>
        {
            let len = rng.range(2, 5);
            let n = names(rng, len);
            let l = leafs(rng, 2);
            let mut rules = vec![make_rule(rng, vec![n[0].clone()], vec![l[0].clone()], &mut salt)];
            for i in 1..len
            {
                let mut src = vec![n[i-1].clone()];
                if rng.chance(1, 3) { src.push(l[1].clone()); }
                rules.push(make_rule(rng, vec![n[i].clone()], src, &mut salt));
            }
            graph_from(shape, rules, rng)
        },
        "diamond" =>
        {
            let n = names(rng, 4);
            let l = leafs(rng, 2);
            let rules = vec![
                make_rule(rng, vec![n[0].clone()], vec![l[0].clone()], &mut salt),
                make_rule(rng, vec![n[1].clone()], vec![n[0].clone()], &mut salt),
                make_rule(rng, vec![n[2].clone()], vec![n[0].clone(), l[1].clone()], &mut salt),
                make_rule(rng, vec![n[3].clone()], vec![n[1].clone(), n[2].clone()], &mut salt),
            ];
            graph_from(shape, rules, rng)
        },
        "triangle" =>
        {
            // a <- {b, c}, b <- {c}, c <- {leaf}, under random names so every name order occurs
            let n = names(rng, 3);
            let l = leafs(rng, 1);
            let rules = vec![
                make_rule(rng, vec![n[0].clone()], vec![n[1].clone(), n[2].clone()], &mut salt),
                make_rule(rng, vec![n[1].clone()], vec![n[2].clone()], &mut salt),
                make_rule(rng, vec![n[2].clone()], vec![l[0].clone()], &mut salt),
            ];
            graph_from(shape, rules, rng)
        },
        "k4" =>
        {
            // complete DAG on four rules
            let n = names(rng, 4);
            let l = leafs(rng, 1);
            let mut rules = vec![];
            for i in 0..4
            {
                let mut src : Vec<String> = (i+1..4).map(|j| n[j].clone()).collect();
                if src.len() == 0 { src.push(l[0].clone()); }
                rules.push(make_rule(rng, vec![n[i].clone()], src, &mut salt));
            }
            graph_from(shape, rules, rng)
        },
        "fan_in" =>
        {
            let width = rng.range(2, 6);
            let n = names(rng, width + 1);
            let l = leafs(rng, 3);
            let mut rules = vec![];
            for i in 0..width
            {
                let leaf = l[i % l.len()].clone();
                rules.push(make_rule(rng, vec![n[i].clone()], vec![leaf], &mut salt));
            }
            rules.push(make_rule(rng, vec![n[width].clone()], n[..width].to_vec(), &mut salt));
            graph_from(shape, rules, rng)
        },
        "fan_out" =>
        {
            let width = rng.range(2, 6);
            let n = names(rng, width + 1);
            let l = leafs(rng, 2);
            let mut rules = vec![make_rule(rng, vec![n[0].clone()], vec![l[0].clone()], &mut salt)];
            for i in 0..width
            {
                let mut src = vec![n[0].clone()];
                if rng.chance(1, 3) { src.push(l[1].clone()); }
                rules.push(make_rule(rng, vec![n[i+1].clone()], src, &mut salt));
            }
            graph_from(shape, rules, rng)
        },
        "components" =>
        {
            let n = names(rng, 5);
            let l = leafs(rng, 3);
            let rules = vec![
                make_rule(rng, vec![n[0].clone()], vec![l[0].clone()], &mut salt),
                make_rule(rng, vec![n[1].clone()], vec![n[0].clone()], &mut salt),
                make_rule(rng, vec![n[2].clone()], vec![l[1].clone()], &mut salt),
                make_rule(rng, vec![n[3].clone(), n[4].clone()], vec![l[2].clone(), l[1].clone()], &mut salt),
            ];
            graph_from(shape, rules, rng)
        },
        "twins" =>
        {
            // independent rules copying leaves verbatim: equal leaves give byte-identical targets
            let count = rng.range(2, 4);
            let n = names(rng, count + 1);
            let l = leafs(rng, count);
            let mut rules = vec![];
            for i in 0..count
            {
                let mut r = make_rule(rng, vec![n[i].clone()], vec![l[i].clone()], &mut salt);
                r.outs[0].raw = true;
                r.outs[0].mask = 1;
                rules.push(r);
            }
            if rng.chance(1, 2)
            {
                rules.push(make_rule(rng, vec![n[count].clone()], n[..count].to_vec(), &mut salt));
            }
            let mut g = graph_from(shape, rules, rng);
            g.shape = "twins".to_string();
            g
        },
        "copies" =>
        {
            // verbatim copies of distinct leaves (like `cp`), each with a dependent: the same bytes can travel between
            // paths when leaves are swapped or reverted, so one rule's old output is another rule's current one
            let count = rng.range(2, 3);
            let n = names(rng, 2 * count);
            let l = leafs(rng, count);
            let mut rules = vec![];
            if rng.chance(1, 3)
            {
                // one rule copying two leaves into two targets (cp a b ; cp c d), with a dependent of each
                let mut r = make_rule(rng, vec![n[0].clone(), n[1].clone()], vec![l[0].clone(), l[1].clone()], &mut salt);
                r.outs[0].raw = true; r.outs[0].mask = 1;
                r.outs[1].raw = true; r.outs[1].mask = 2;
                rules.push(r);
                rules.push(make_rule(rng, vec![n[count].clone()], vec![n[0].clone()], &mut salt));
                rules.push(make_rule(rng, vec![n[count + 1].clone()], vec![n[1].clone()], &mut salt));
                if rng.chance(2, 3)
                {
                    // and a single copy of a third leaf, so that bytes can move between that rule's target and these
                    let extra = names(rng, 2 * count + 2);
                    let third = leafs(rng, count + 1);
                    if let (Some(t), Some(leaf)) = (extra.iter().find(|x| !n.contains(x)), third.iter().find(|x| !l.contains(x)))
                    {
                        let mut u = make_rule(rng, vec![t.clone()], vec![leaf.clone()], &mut salt);
                        u.outs[0].raw = true; u.outs[0].mask = 1;
                        rules.push(u);
                    }
                }
                return graph_from(shape, rules, rng);
            }
            for i in 0..count
            {
                let mut r = make_rule(rng, vec![n[i].clone()], vec![l[i].clone()], &mut salt);
                r.outs[0].raw = true;
                r.outs[0].mask = 1;
                rules.push(r);
                if rng.chance(3, 4)
                {
                    rules.push(make_rule(rng, vec![n[count + i].clone()], vec![n[i].clone()], &mut salt));
                }
            }
            graph_from(shape, rules, rng)
        },
        "two_of_one" =>
        {
            // a rule that uses two targets of one multi-target rule (two tickets from the same producer), and a rule after
            // it that also has a leaf of its own: when only the second target changes the middle rule must still notice
            let n = names(rng, 4);
            let l = leafs(rng, 3);
            let mut first = make_rule(rng, vec![n[0].clone(), n[1].clone()], vec![l[0].clone(), l[1].clone()], &mut salt);
            first.outs[0].mask = 1; first.outs[1].mask = 2;
            let rules = vec![
                first,
                make_rule(rng, vec![n[2].clone()], vec![n[0].clone(), n[1].clone()], &mut salt),
                make_rule(rng, vec![n[3].clone()], vec![n[2].clone(), l[2].clone()], &mut salt),
            ];
            graph_from(shape, rules, rng)
        },
        "second_target" =>
        {
            let n = names(rng, 5);
            let l = leafs(rng, 2);
            let mut first = make_rule(rng, vec![n[0].clone(), n[1].clone(), n[2].clone()], vec![l[0].clone(), l[1].clone()], &mut salt);
            first.outs[0].mask = 1; first.outs[1].mask = 2; first.outs[2].mask = 3;
            let rules = vec![
                first,
                make_rule(rng, vec![n[3].clone()], vec![n[1].clone()], &mut salt),
                make_rule(rng, vec![n[4].clone()], vec![n[2].clone(), n[0].clone()], &mut salt),
            ];
            graph_from(shape, rules, rng)
        },
        _ /* wide_multi */ =>
        {
            let n = names(rng, 6);
            let l = leafs(rng, 3);
            let rules = vec![
                make_rule(rng, vec![n[0].clone(), n[1].clone()], vec![l[0].clone(), l[1].clone(), l[2].clone()], &mut salt),
                make_rule(rng, vec![n[2].clone(), n[3].clone()], vec![n[0].clone(), l[2].clone()], &mut salt),
                make_rule(rng, vec![n[4].clone()], vec![n[1].clone(), n[3].clone()], &mut salt),
                make_rule(rng, vec![n[5].clone()], vec![n[4].clone(), n[2].clone()], &mut salt),
            ];
            graph_from(shape, rules, rng)
        },
    }
}

pub fn any_graph(rng : &mut Rng, max_rules : usize) -> Graph
{
    if rng.chance(1, 2)
    {
        random_graph(rng, max_rules)
    }
    else
    {
        let shape = SHAPES[rng.below(SHAPES.len())];
        preset_graph(rng, shape)
    }
}

/* a structural fingerprint that ignores names: sorted (targets, [source kind]) multiset */
pub fn shape_hash(rules : &[GRule]) -> u64
{
    let produced : std::collections::BTreeMap<String, usize> = rules.iter().enumerate()
        .flat_map(|(i, r)| r.targets().into_iter().map(move |t| (t, i))).collect();
    let mut parts : Vec<String> = vec![];
    for r in rules
    {
        let mut deps : Vec<String> = r.sources.iter().map(|s| match produced.get(s)
        {
            Some(p) =>
            {
                let sub = rules[*p].targets().iter().position(|t| t == s).unwrap_or(0);
                format!("r{}.{}", rules[*p].outs.len(), sub)
            },
            None => "leaf".to_string(),
        }).collect();
        deps.sort();
        parts.push(format!("{}<{}>", r.outs.len(), deps.join(",")));
    }
    parts.sort();
    crate::verif::util::fnv_str(&parts.join("|"))
}

/* ------------------------------------------------------------------ rule edits */

#[derive(Clone, Debug)]
pub enum RuleEdit
{
    Salt(usize),
    AddSource(usize, String),
    RemoveSource(usize, String),
    AddTarget(usize, String),
    RemoveTarget(usize, String),
    RenameTarget(usize, String, String),
    Garbage(usize, bool),
    Mask(usize),
    RemoveRule(usize),
    ToggleExec(usize),
}

pub fn describe_edit(e : &RuleEdit) -> String
{
    format!("{:?}", e)
}

/*  Propose an edit that keeps the graph acyclic and free of duplicate targets (most of the time the
    histories want valid graphs; invalid ones are exercised by the sorter checks). */
pub fn propose_edit(rng : &mut Rng, rules : &[GRule], salt_counter : &mut u64) -> Option<(RuleEdit, Vec<GRule>)>
{
    if rules.len() == 0 { return None; }
    let i = rng.below(rules.len());
    let mut next = rules.to_vec();
    let all_targets : BTreeSet<String> = rules.iter().flat_map(|r| r.targets()).collect();
    let all_sources : BTreeSet<String> = rules.iter().flat_map(|r| r.sources.clone()).collect();

    let kind = rng.weighted(&[5, 3, 3, 2, 2, 2, 2, 2, 1, 1]);
    let edit = match kind
    {
        0 =>
        {
            *salt_counter += 1;
            next[i].salt = format!("e{}", salt_counter);
            RuleEdit::Salt(i)
        },
        1 =>
        {
            // add a leaf or a target of a rule that does not (transitively) depend on rule i
            let mut candidates : Vec<String> = LEAF_POOL.iter().map(|s| s.to_string()).filter(|s| !rules[i].sources.contains(s)).collect();
            for (j, r) in rules.iter().enumerate()
            {
                if j != i && !depends_on(rules, j, i)
                {
                    for t in r.targets() { if !rules[i].sources.contains(&t) { candidates.push(t); } }
                }
            }
            if candidates.len() == 0 || rules[i].sources.len() >= 6 { return None; }
            let s = candidates[rng.below(candidates.len())].clone();
            next[i].sources.push(s.clone());
            RuleEdit::AddSource(i, s)
        },
        2 =>
        {
            if rules[i].sources.len() < 2 { return None; }
            let k = rng.below(rules[i].sources.len());
            let s = next[i].sources.remove(k);
            // keep masks meaningful: drop bit k
            for o in next[i].outs.iter_mut()
            {
                let low = o.mask & ((1u32 << k) - 1);
                let high = (o.mask >> (k + 1)) << k;
                o.mask = low | high;
                if o.mask == 0 { o.mask = 1; }
            }
            RuleEdit::RemoveSource(i, s)
        },
        3 =>
        {
            let free : Vec<String> = TARGET_POOL.iter().map(|s| s.to_string())
                .filter(|s| !all_targets.contains(s) && !all_sources.contains(s)).collect();
            if free.len() == 0 || rules[i].outs.len() >= 4 { return None; }
            let t = free[rng.below(free.len())].clone();
            let mask = full_mask(rules[i].sources.len());
            next[i].outs.push(OutSpec { path : t.clone(), raw : false, mask : mask, exec : false });
            RuleEdit::AddTarget(i, t)
        },
        4 =>
        {
            if rules[i].outs.len() < 2 { return None; }
            let k = rng.below(rules[i].outs.len());
            let t = next[i].outs.remove(k).path;
            RuleEdit::RemoveTarget(i, t)
        },
        5 =>
        {
            let free : Vec<String> = TARGET_POOL.iter().map(|s| s.to_string())
                .filter(|s| !all_targets.contains(s) && !all_sources.contains(s)).collect();
            if free.len() == 0 { return None; }
            let k = rng.below(rules[i].outs.len());
            let old = next[i].outs[k].path.clone();
            let new = free[rng.below(free.len())].clone();
            next[i].outs[k].path = new.clone();
            // dependents follow the rename half of the time; otherwise the old path becomes a plain file source
            if rng.chance(1, 2)
            {
                for r in next.iter_mut() { for s in r.sources.iter_mut() { if *s == old { *s = new.clone(); } } }
            }
            RuleEdit::RenameTarget(i, old, new)
        },
        6 =>
        {
            let g = !rules[i].garbage;
            next[i].garbage = g;
            RuleEdit::Garbage(i, g)
        },
        7 =>
        {
            let n = rules[i].sources.len();
            let k = rng.below(rules[i].outs.len());
            let mut mask = 0;
            for b in 0..n { if rng.chance(1, 2) { mask |= 1 << b; } }
            if mask == 0 { mask = 1; }
            if mask == rules[i].outs[k].mask { return None; }
            next[i].outs[k].mask = mask;
            RuleEdit::Mask(i)
        },
        8 =>
        {
            if rules.len() < 2 { return None; }
            next.remove(i);
            RuleEdit::RemoveRule(i)
        },
        _ =>
        {
            let k = rng.below(rules[i].outs.len());
            next[i].outs[k].exec = !next[i].outs[k].exec;
            RuleEdit::ToggleExec(i)
        },
    };
    Some((edit, next))
}

/* does rule a depend (transitively) on rule b? */
pub fn depends_on(rules : &[GRule], a : usize, b : usize) -> bool
{
    let producer : std::collections::BTreeMap<String, usize> = rules.iter().enumerate()
        .flat_map(|(i, r)| r.targets().into_iter().map(move |t| (t, i))).collect();
    let mut seen = vec![false; rules.len()];
    let mut stack = vec![a];
    while let Some(i) = stack.pop()
    {
        if seen[i] { continue; }
        seen[i] = true;
        for s in rules[i].sources.iter()
        {
            if let Some(p) = producer.get(s)
            {
                if *p == b { return true; }
                stack.push(*p);
            }
        }
    }
    false
}
