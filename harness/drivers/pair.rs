// C18: the modification-time shortcut never changes a result.  The same history is run on two identical
// workspaces in lock step: one as is, one with the file-state table erased before every build (so every file is
// re-hashed).  After every build the verdicts and all workspace bytes must agree.  Two clock models: every write a
// distinct timestamp; one tick per user action / ruler invocation (all files written by one invocation share a
// timestamp - the model of the project's own FakeSystem).  In the as-is run every ticket handed to a dependent is
// also compared with the true hash of the file at that moment.

use std::collections::BTreeSet;

use crate::verif::drivers::common::{emit_inconclusive, emit_violation, Params, Tally};
use crate::verif::drivers::hist::{self, HOp, HistCfg, HistRun};
use crate::verif::gen;
use crate::verif::util::{env_str, fnv_str, mix, Rng, J};
use crate::verif::vsys::{Clock, Op, Who, ruler_dir};
use crate::verif::world::{self, Obs, SchedChoice, Violation};

fn cfg_for(thorough : bool, clock : Clock) -> HistCfg
{
    let mut c = HistCfg::base(thorough);
    c.clock = clock;
    c.random_sched_pct = 0;
    c.motif_pct = 45;
    c.travel_bias = true;
    // operations whose concrete effect depends on listing ruler's directory are left out so that both runs
    // perform literally the same user actions
    c.weights[hist::W_DELETE_CACHE_ENTRY] = 0;
    c.weights[hist::W_DELETE_HISTORY_FILE] = 0;
    c.weights[hist::W_DELETE_TABLE] = 0;
    c.weights[hist::W_SWAP_LEAVES] = 6;
    c.weights[hist::W_CLEAN_GOAL] = 6;
    c.weights[hist::W_CLEAN_ALL] = 4;
    c.weights[hist::W_REVERT_LEAF] = 10;
    c.weights[hist::W_EDIT_RULE] = 4;
    // failing builds matter too: what a failed build saves (or does not save) must not mislead the next one
    c.failures = true;
    c.weights[hist::W_POISON_FAIL] = 4;
    c.weights[hist::W_POISON_SKIP] = 2;
    c.weights[hist::W_DELETE_LEAF] = 3;
    c
}

pub fn drive()
{
    let params = Params::from_env("pair");
    let mut tally = Tally::new();
    let mut timed_out = false;
    let clock_sel = env_str("VERIF_CLOCK", "both");
    for case in params.case_list()
    {
        if params.out_of_time() { timed_out = true; break; }
        let mut rng = params.case_rng(case);
        let clock = match clock_sel.as_str() { "distinct" => Clock::Distinct, "coarse" => Clock::Coarse, _ => if case % 2 == 0 { Clock::Coarse } else { Clock::Distinct } };
        let cfg = cfg_for(params.thorough(), clock);
        // a third of the histories use the graphs whose targets are verbatim copies or twins: there the same bytes move
        // between paths through the cache, which is where a remembered (hash, mtime) pair can go stale
        let travel = if rng.chance(2, 3) { "copies" } else { "twins" };
        let graph = if rng.chance(1, 3) { gen::preset_graph(&mut rng, travel) } else { gen::any_graph(&mut rng, cfg.max_rules) };
        let mut rng_a = rng.fork();
        let mut rng_b = rng_a.clone();
        let mut a = HistRun::new(&mut rng_a, cfg.clone(), graph.clone());
        let mut b = HistRun::new(&mut rng_b, cfg.clone(), graph.clone());
        b.world.erase_table_before_build = true;
        tally.cases_run += 1;
        tally.counts.inc(if clock == Clock::Coarse { "histories_coarse_clock" } else { "histories_distinct_clock" });

        let mut found : Option<Violation> = None;
        let mut restored_any = false;
        let mut builds = 0;
        let max_ops = cfg.max_ops;
        for _step in 0..max_ops
        {
            if found.is_some() { break; }
            let op = a.choose_op(&mut rng);
            a.world.note_op(format!("{:?}", op));
            b.world.note_op(format!("{:?}", op));
            let mut r1 = rng.fork();
            let mut r2 = r1.clone();
            if a.apply_user_op(&mut r1, &op)
            {
                b.apply_user_op(&mut r2, &op);
                continue;
            }
            let invocations : Vec<(&str, Option<String>)> = match &op
            {
                HOp::Build(g) => vec![("build", g.clone())],
                HOp::BuildAgain => match &a.last_build_goal { Some(g) => vec![("build", g.clone())], None => vec![("build", None)] },
                HOp::Clean(g) => vec![("clean", g.clone())],
                HOp::BuildCleanBuild(g) => vec![("build", g.clone()), ("clean", g.clone()), ("build", g.clone())],
                _ => vec![],
            };
            for (kind, goal) in invocations
            {
                let (oa, ob) : (Obs, Obs) = if kind == "build"
                {
                    (a.world.invoke_build(goal.clone(), &SchedChoice::serial()), b.world.invoke_build(goal.clone(), &SchedChoice::serial()))
                }
                else
                {
                    (a.world.invoke_clean(goal.clone(), &SchedChoice::serial()), b.world.invoke_clean(goal.clone(), &SchedChoice::serial()))
                };
                a.world.absorb(&oa);
                b.world.absorb(&ob);
                if kind == "build"
                {
                    a.last_build_goal = Some(goal.clone());
                    builds += 1;
                    let prefix = format!("{}/cache/", ruler_dir());
                    if oa.log.iter().any(|e| e.op == Op::Rename && e.ok && e.who == Who::Ruler && e.p1.starts_with(&prefix) && !e.p2.starts_with(ruler_dir())) { restored_any = true; }
                    tally.counts.inc("builds_compared");

                    // direct observation: the hash handed to a dependent is the file's true hash
                    for e in oa.log.iter()
                    {
                        if e.op == Op::Send && e.ok
                        {
                            tally.counts.inc("handoffs_checked");
                            if e.aux.as_ref() != Some(&e.note)
                            {
                                found = Some(Violation::new("C18", if clock == Clock::Coarse { "stale-hash-handed-to-dependent:coarse-clock" } else { "stale-hash-handed-to-dependent" },
                                    format!("with the file-state table in use, the hash {} was handed to a dependent for {} whose bytes hash to {:?}", e.note, e.p1, e.aux)));
                                break;
                            }
                        }
                    }
                    if found.is_some() { break; }

                    if oa.verdict != ob.verdict
                    {
                        found = Some(Violation::new("C18", if clock == Clock::Coarse { "verdict-differs:coarse-clock" } else { "verdict-differs" },
                            format!("with the file-state table the build returned {}, without it {}", oa.verdict.short(), ob.verdict.short())));
                        break;
                    }
                    let fa = world::user_files(&oa.after);
                    let fb = world::user_files(&ob.after);
                    if fa != fb
                    {
                        let mut paths : BTreeSet<&String> = fa.keys().collect();
                        paths.extend(fb.keys());
                        let diff : Vec<String> = paths.into_iter().filter(|p| fa.get(*p) != fb.get(*p)).map(|p| format!("{}: {:?} vs {:?}", p,
                            fa.get(p).map(|x| crate::verif::util::show_bytes(x)), fb.get(p).map(|x| crate::verif::util::show_bytes(x)))).collect();
                        found = Some(Violation::new("C18", if clock == Clock::Coarse { "contents-differ:coarse-clock" } else { "contents-differ" },
                            format!("after the same history the workspace differs with / without the file-state table: {}", diff.join("; "))));
                        break;
                    }
                }
            }
        }
        if builds > 0
        {
            tally.eval(mix(a.shape_hash, mix(fnv_str(&a.world.ops.join(";")), clock as u64)), restored_any);
        }
        let detail = J::obj(vec![
            ("clock_model", J::s(if clock == Clock::Coarse { "one tick per user action / invocation" } else { "every write distinct" })),
            ("graph_shape", J::s(&a.graph_shape)),
            ("rules_file", J::Str(a.world.rules_text())),
            ("history", J::strs(&a.world.ops)),
        ]);
        if tally.wants_sample() && restored_any && found.is_none() { tally.sample(detail.clone()); }
        if let Some(v) = found
        {
            emit_violation(&params, &mut tally, case, &v, detail);
        }
    }
    tally.emit_summary(&params, timed_out);
}

#[test] #[ignore] fn pair_c18() { drive(); }
