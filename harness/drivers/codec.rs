// C16: saved state round-trips exactly and damaged state is rejected, not misread.
// Instances of both state files are generated, written by ruler's own writers on VSys, read back by ruler's
// own readers on a fresh handle, then damaged: every strict prefix, single bit flips, random bytes.
// The file images are also exported (hex) and decoded by the independent bincode reader in
// pytools/bincode_reader.py (layout cross-check; the same reader serves C19).

use std::collections::{BTreeMap, BTreeSet};
use std::panic::{catch_unwind, AssertUnwindSafe};

use crate::blob::{FileState, FileStateVec};
use crate::current::CurrentFileStates;
use crate::history::{History, RuleHistory};
use crate::ticket::{Ticket, TicketFactory};
use crate::verif::drivers::common::{emit_violation, Params, Tally};
use crate::verif::sha;
use crate::verif::shim;
use crate::verif::util::{emit, fnv64, mix, Rng, J};
use crate::verif::vsys::{Clock, VSys, ruler_dir};
use crate::verif::world::Violation;

fn ticket(rng : &mut Rng) -> Ticket
{
    // any 256-bit value, made without hashing: through the text form
    let mut v = [0u8; 32];
    for b in v.iter_mut() { *b = rng.next_u64() as u8; }
    if rng.chance(1, 6) { for b in v[rng.below(32)..].iter_mut() { *b = 0; } }
    Ticket::from_human_readable(&sha::base62(&v)).expect("valid encoding")
}

struct Ctx<'a>
{
    params : &'a Params,
    tally : &'a mut Tally,
    reported : BTreeSet<String>,
}

impl<'a> Ctx<'a>
{
    fn violation(&mut self, case : u64, signature : &str, what : String, detail : J)
    {
        if self.reported.len() < 20 && self.reported.insert(signature.to_string())
        {
            emit_violation(self.params, self.tally, case, &Violation::new("C16", signature, what), detail);
        }
        else { self.tally.violations += 1; }
    }
}

fn fresh_sys(seed : u64) -> VSys
{
    let sys = VSys::new(Clock::Distinct, seed);
    sys.user_mkdirs(&format!("{}/history", ruler_dir()));
    sys.user_mkdirs(&format!("{}/cache", ruler_dir()));
    { let mut fs = sys.lock(); fs.logging = false; }
    sys
}

enum Read<T> { Value(T), Rejected, Panicked(String) }

fn read_history(sys : &VSys, rule : &Ticket) -> Read<RuleHistory>
{
    let h = History::new(sys.clone(), &format!("{}/history", ruler_dir()));
    match catch_unwind(AssertUnwindSafe(|| h.read_rule_history(rule)))
    {
        Ok(Ok(v)) => Read::Value(v),
        Ok(Err(_)) => Read::Rejected,
        Err(_) => Read::Panicked(shim::take_last_panic().unwrap_or("?".to_string())),
    }
}

fn read_table(sys : &VSys, paths : &Vec<String>) -> Read<Vec<(String, FileState)>>
{
    let path = format!("{}/current_file_states", ruler_dir());
    match catch_unwind(AssertUnwindSafe(|| CurrentFileStates::from_file(sys.clone(), path.clone())))
    {
        Ok(Ok(mut table)) =>
        {
            // take_blob() fills in FileState::empty() for absent paths, which computes a SHA-256; under Miri the SHA-256
            // dependency cannot be executed (VERIF_NOHASH=1), so only the decoding itself is exercised there
            if crate::verif::util::env_u64("VERIF_NOHASH", 0) == 1 { return Read::Value(vec![]); }
            let blob = table.take_blob(paths.clone());
            Read::Value(blob.get_file_infos().into_iter().map(|i| (i.path, i.file_state)).collect())
        },
        Ok(Err(_)) => Read::Rejected,
        Err(_) => Read::Panicked(shim::take_last_panic().unwrap_or("?".to_string())),
    }
}

fn history_case(ctx : &mut Ctx, rng : &mut Rng, case : u64, small : bool)
{
    // every eighth history is a corner of the stated range or beyond it (a rule built hundreds of times): what is
    // recorded is read back whatever its size
    let corner = !small && case % 16 == 2;
    let (entries, targets) = if corner { *rng.pick(&[(50usize, 8usize), (50, 8), (120, 3), (210, 1), (400, 8)]) }
        else { (if small { rng.below(3) } else { rng.below(51) }, rng.range(1, 8)) };
    if corner { ctx.tally.counts.inc("large_histories"); }
    let mut rh = RuleHistory::new();
    let mut expected : Vec<(Ticket, Vec<Ticket>)> = vec![];
    for _ in 0..entries
    {
        let key = ticket(rng);
        let values : Vec<Ticket> = (0..targets).map(|_| ticket(rng)).collect();
        if rh.insert(key.clone(), FileStateVec::from_ticket_vec(values.clone())).is_ok() { expected.push((key, values)); }
    }
    let rule = ticket(rng);
    let sys = fresh_sys(rng.next_u64());
    let mut writer = History::new(sys.clone(), &format!("{}/history", ruler_dir()));
    if writer.write_rule_history(rule.clone(), rh.clone()).is_err()
    {
        ctx.violation(case, "history-write-failed", "writing a rule history failed".to_string(), J::Null);
        return;
    }
    let file = format!("{}/history/{}", ruler_dir(), rule.human_readable());
    let image = match sys.read_file(&file) { Some(b) => b, None => { ctx.violation(case, "history-file-not-at-expected-name", format!("no file {}", file), J::Null); return; } };

    // round trip on a fresh handle
    ctx.tally.eval(mix(fnv64(&image), 1), true);
    ctx.tally.counts.inc("history_round_trips");
    match read_history(&sys, &rule)
    {
        Read::Value(back) =>
        {
            if back != rh { ctx.violation(case, "history-round-trip-differs", format!("a history with {} entries x {} targets read back differently", entries, targets), J::Null); }
            for (k, v) in expected.iter()
            {
                match back.get_file_state_vec(k)
                {
                    Some(fsv) => for (i, t) in v.iter().enumerate() { if fsv.get_ticket(i) != *t { ctx.violation(case, "history-entry-differs", "a remembered target hash read back differently".to_string(), J::Null); } },
                    None => ctx.violation(case, "history-entry-lost", "a remembered entry is missing after reading back".to_string(), J::Null),
                }
            }
        },
        Read::Rejected => ctx.violation(case, "history-own-file-rejected", "ruler rejected the history file it had just written".to_string(), J::Null),
        Read::Panicked(p) => ctx.violation(case, "history-read-panicked", format!("reading back panicked: {}", p), J::Null),
    }
    if case % 16 == 0
    {
        emit(&J::obj(vec![("type", J::s("historyfile")), ("image_hex", J::Str(sha::hex(&image))),
            ("entries", J::Arr(expected.iter().map(|(k, v)| J::obj(vec![("source", J::Str(k.human_readable())), ("targets", J::Arr(v.iter().map(|t| J::Str(t.human_readable())).collect()))])).collect()))]));
    }

    // every strict prefix is rejected
    let step = if image.len() > 600 { 7.max(image.len() / 300) } else { 1 } * crate::verif::util::env_u64("VERIF_PREFIX_STEP", 1) as usize;
    let mut cut = 0;
    while cut < image.len()
    {
        sys.user_write(&file, &image[..cut], false);
        ctx.tally.eval(mix(fnv64(&image), mix(2, cut as u64)), true);
        ctx.tally.counts.inc("history_prefixes");
        match read_history(&sys, &rule)
        {
            Read::Rejected => {},
            Read::Value(v) => ctx.violation(case, "truncated-history-accepted", format!("the first {} of {} bytes of a history file were accepted as a history ({} when compared with the full one)", cut, image.len(), if v == rh { "equal" } else { "different" }), J::obj(vec![("image_hex", J::Str(sha::hex(&image))), ("cut", J::i(cut))])),
            Read::Panicked(p) => ctx.violation(case, "history-read-panicked", format!("reading a truncated history panicked: {}", p), J::Null),
        }
        cut += step;
    }

    // single bit flips (small instances: every position) and random garbage: error or different well-formed data, never a panic
    let max_flips = crate::verif::util::env_u64("VERIF_MAX_FLIPS", 1_000_000) as usize;
    let mut positions : Vec<usize> = if image.len() <= 400 { (0..image.len() * 8).collect() } else { (0..300).map(|_| rng.below(image.len() * 8)).collect() };
    if positions.len() > max_flips { rng.shuffle(&mut positions); positions.truncate(max_flips); }
    for bit in positions
    {
        let mut damaged = image.clone();
        damaged[bit / 8] ^= 1 << (bit % 8);
        sys.user_write(&file, &damaged, false);
        ctx.tally.eval(mix(fnv64(&image), mix(3, bit as u64)), true);
        ctx.tally.counts.inc("history_bit_flips");
        match read_history(&sys, &rule)
        {
            Read::Rejected => ctx.tally.counts.inc("history_bit_flip_rejected"),
            Read::Value(v) => { if v == rh { ctx.violation(case, "bit-flip-invisible", format!("flipping bit {} of a history file changed nothing in what was read", bit), J::Null); } else { ctx.tally.counts.inc("history_bit_flip_read_as_other_data"); } },
            Read::Panicked(p) => ctx.violation(case, "history-read-panicked", format!("reading a history file with bit {} flipped panicked: {}", bit, p), J::obj(vec![("image_hex", J::Str(sha::hex(&damaged)))])),
        }
    }
    for _ in 0..20
    {
        let len = rng.below(200);
        let garbage : Vec<u8> = (0..len).map(|_| if rng.chance(1, 3) { 0xff } else { rng.next_u64() as u8 }).collect();
        sys.user_write(&file, &garbage, false);
        ctx.tally.eval(mix(fnv64(&garbage), 4), true);
        ctx.tally.counts.inc("history_random_bytes");
        if let Read::Panicked(p) = read_history(&sys, &rule)
        {
            ctx.violation(case, "history-read-panicked", format!("reading random bytes as a history panicked: {}", p), J::obj(vec![("image_hex", J::Str(sha::hex(&garbage)))]));
        }
    }
}

fn table_case(ctx : &mut Ctx, rng : &mut Rng, case : u64, small : bool)
{
    let entries = if small { rng.below(3) } else { rng.below(51) };
    let sys = fresh_sys(rng.next_u64());
    let path = format!("{}/current_file_states", ruler_dir());
    let mut table = match CurrentFileStates::from_file(sys.clone(), path.clone())
    {
        Ok(t) => t,
        Err(_) => { ctx.violation(case, "table-create-failed", "creating an empty file-state table failed".to_string(), J::Null); return; },
    };
    let mut expected : BTreeMap<String, FileState> = BTreeMap::new();
    for i in 0..entries
    {
        let name = match rng.below(4) { 0 => format!("t{}", i), 1 => format!("dir/sub/t{}", i), 2 => format!("é{} with space", i), _ => format!("{}{}", "x".repeat(rng.below(40)), i) };
        let state = FileState { ticket : ticket(rng), timestamp : rng.next_u64() >> rng.below(40), executable : rng.chance(1, 2) };
        table.insert_file_state(name.clone(), state.clone());
        expected.insert(name, state);
    }
    if table.to_file().is_err()
    {
        ctx.violation(case, "table-write-failed", "writing the file-state table failed".to_string(), J::Null);
        return;
    }
    let image = sys.read_file(&path).unwrap_or(vec![]);
    let paths : Vec<String> = expected.keys().cloned().collect();
    ctx.tally.eval(mix(fnv64(&image), 11), true);
    ctx.tally.counts.inc("table_round_trips");
    match read_table(&sys, &paths)
    {
        Read::Value(back) =>
        {
            for (p, s) in back.iter()
            {
                if expected.get(p) != Some(s) { ctx.violation(case, "table-round-trip-differs", format!("the state of {:?} read back as {:?} instead of {:?}", p, s, expected.get(p)), J::Null); }
            }
        },
        Read::Rejected => ctx.violation(case, "table-own-file-rejected", "ruler rejected the table it had just written".to_string(), J::Null),
        Read::Panicked(p) => ctx.violation(case, "table-read-panicked", format!("reading back panicked: {}", p), J::Null),
    }
    if case % 16 == 0
    {
        emit(&J::obj(vec![("type", J::s("tablefile")), ("image_hex", J::Str(sha::hex(&image))),
            ("entries", J::Arr(expected.iter().map(|(k, v)| J::obj(vec![("path", J::s(k)), ("hash", J::Str(v.ticket.human_readable())), ("timestamp", J::Str(format!("{}", v.timestamp))), ("executable", J::Bool(v.executable))])).collect()))]));
    }

    let step = if image.len() > 600 { 11 } else { 1 } * crate::verif::util::env_u64("VERIF_PREFIX_STEP", 1) as usize;
    let mut cut = 0;
    while cut < image.len()
    {
        sys.user_write(&path, &image[..cut], false);
        ctx.tally.eval(mix(fnv64(&image), mix(12, cut as u64)), true);
        ctx.tally.counts.inc("table_prefixes");
        match read_table(&sys, &paths)
        {
            Read::Rejected => {},
            Read::Value(_) => ctx.violation(case, "truncated-table-accepted", format!("the first {} of {} bytes of the file-state table were accepted", cut, image.len()), J::obj(vec![("image_hex", J::Str(sha::hex(&image))), ("cut", J::i(cut))])),
            Read::Panicked(p) => ctx.violation(case, "table-read-panicked", format!("reading a truncated table panicked: {}", p), J::Null),
        }
        cut += step;
    }
    let max_flips = crate::verif::util::env_u64("VERIF_MAX_FLIPS", 1_000_000) as usize;
    let mut positions : Vec<usize> = if image.len() <= 300 { (0..image.len() * 8).collect() } else { (0..300).map(|_| rng.below(image.len() * 8)).collect() };
    if positions.len() > max_flips { rng.shuffle(&mut positions); positions.truncate(max_flips); }
    for bit in positions
    {
        let mut damaged = image.clone();
        damaged[bit / 8] ^= 1 << (bit % 8);
        sys.user_write(&path, &damaged, false);
        ctx.tally.eval(mix(fnv64(&image), mix(13, bit as u64)), true);
        ctx.tally.counts.inc("table_bit_flips");
        match read_table(&sys, &paths)
        {
            Read::Rejected => ctx.tally.counts.inc("table_bit_flip_rejected"),
            Read::Value(back) =>
            {
                let same = back.iter().all(|(p, s)| expected.get(p) == Some(s));
                if same && entries > 0 { ctx.tally.counts.inc("table_bit_flip_in_a_key_or_unobserved"); } else { ctx.tally.counts.inc("table_bit_flip_read_as_other_data"); }
            },
            Read::Panicked(p) => ctx.violation(case, "table-read-panicked", format!("reading a table with bit {} flipped panicked: {}", bit, p), J::obj(vec![("image_hex", J::Str(sha::hex(&damaged)))])),
        }
    }
    for _ in 0..20
    {
        let len = rng.below(200);
        let garbage : Vec<u8> = (0..len).map(|_| if rng.chance(1, 3) { 0xff } else { rng.next_u64() as u8 }).collect();
        sys.user_write(&path, &garbage, false);
        ctx.tally.eval(mix(fnv64(&garbage), 14), true);
        ctx.tally.counts.inc("table_random_bytes");
        if let Read::Panicked(p) = read_table(&sys, &paths)
        {
            ctx.violation(case, "table-read-panicked", format!("reading random bytes as a table panicked: {}", p), J::obj(vec![("image_hex", J::Str(sha::hex(&garbage)))]));
        }
    }
}

pub fn drive()
{
    let params = Params::from_env("codec");
    let mut tally = Tally::new();
    shim::install_panic_hook();
    shim::set_quiet(true);
    let mut ctx = Ctx { params : &params, tally : &mut tally, reported : BTreeSet::new() };
    let mut timed_out = false;
    for case in params.case_list()
    {
        if params.out_of_time() { timed_out = true; break; }
        let mut rng = params.case_rng(case);
        // progress marker: if the process dies (allocation abort), the orchestrator knows where
        emit(&J::obj(vec![("type", J::s("progress")), ("case", J::u(case))]));
        if case % 2 == 0 { history_case(&mut ctx, &mut rng, case, case % 4 == 0); } else { table_case(&mut ctx, &mut rng, case, case % 4 == 1); }
        ctx.tally.cases_run += 1;
    }
    ctx.tally.sample(J::obj(vec![("kinds", J::s("rule histories 0..50 entries x 1..8 targets (every eighth one a corner: 50x8, 120x3, 210x1, 400x8) and file-state tables 0..50 entries: write/read round trip, every strict prefix (every 7th/11th byte for images > 600 bytes), single bit flips at every position of images <= 400/300 bytes (300 random positions otherwise), 20 random byte strings each"))]));
    tally.emit_summary(&params, timed_out);
}

#[test] #[ignore] fn codec_c16() { drive(); }
