// The harness checks itself: independent hasher vs known vectors, scheduler shim vs the documented
// std channel semantics, reference model vs a fresh build.  A failure here means the harness (not ruler)
// is suspect; the orchestrator reports it as a tool error, never as a property violation.

use crate::verif::drivers::common::{Params, Tally};
use crate::verif::gen;
use crate::verif::sha;
use crate::verif::shim::{self, Policy};
use crate::verif::util::{emit, Rng, J};
use crate::verif::vsys::Clock;
use crate::verif::world::{self, SchedChoice, World};

fn check(ok : bool, what : &str, failures : &mut Vec<String>)
{
    if !ok { failures.push(what.to_string()); }
}

pub fn sha_vectors(failures : &mut Vec<String>)
{
    check(sha::hex(&sha::sha256(b"")) == "e3b0c44298fc1c149afbf4c8996fb92427ae41e4649b934ca495991b7852b855", "sha256(empty)", failures);
    check(sha::hex(&sha::sha256(b"abc")) == "ba7816bf8f01cfea414140de5dae2223b00361a396177a9cb410ff61f20015ad", "sha256(abc)", failures);
    let long = vec![b'a'; 1000];
    check(sha::hex(&sha::sha256(&long)) == "41edece42d63e8d9bf515a9ba6932e1c20cbc9f5a5d134645adb5db1b9737ea3", "sha256(a*1000)", failures);
    let mut rng = Rng::new(5);
    for _ in 0..200
    {
        let mut v = [0u8; 32];
        for b in v.iter_mut() { *b = rng.next_u64() as u8; }
        let text = sha::base62(&v);
        check(text.len() == 43, "base62 length", failures);
        check(sha::unbase62(&text) == Some(v), "base62 round trip", failures);
    }
    check(sha::base62(&[0u8; 32]) == "0".repeat(43), "base62(0)", failures);
    let mut one = [0u8; 32]; one[0] = 1;
    check(sha::base62(&one) == format!("1{}", "0".repeat(42)), "base62(1)", failures);
    check(sha::unbase62(&"Z".repeat(43)).is_none(), "base62 overflow rejected", failures);
}

pub fn shim_semantics(failures : &mut Vec<String>)
{
    // buffered messages survive the sender's drop; recv after the last sender is gone errors;
    // send after the receiver is gone errors and returns the value
    for seed in 0..20u64
    {
        let (value, report) = shim::run_controlled(Policy::Random, seed, None, 100_000, ||
        {
            let (s, r) = shim::mpsc::channel::<u32>();
            let h = shim::thread::spawn(move ||
            {
                s.send(1).unwrap();
                s.send(2).unwrap();
            });
            let a = r.recv();
            let b = r.recv();
            let c = r.recv();
            h.join().unwrap();
            let (s2, r2) = shim::mpsc::channel::<u32>();
            drop(r2);
            let d = s2.send(9);
            (a.ok(), b.ok(), c.is_err(), d.is_err())
        });
        check(value == Some((Some(1), Some(2), true, true)), "shim channel semantics", failures);
        check(report.deadlock.is_none() && report.panics.len() == 0, "shim run clean", failures);
    }

    // a receive that can never be satisfied is reported as a deadlock, logically
    let (_value, report) = shim::run_controlled(Policy::Random, 3, None, 100_000, ||
    {
        let (s, r) = shim::mpsc::channel::<u32>();
        let h = shim::thread::spawn(move || { let _keep = s; let (_s2, r2) = shim::mpsc::channel::<u32>(); let _ = r2.recv(); });
        let _ = r.recv();
        let _ = h.join();
    });
    check(report.deadlock.is_some(), "shim detects deadlock", failures);

    // a panic in a logical thread surfaces as join() == Err and is recorded
    let (value, report) = shim::run_controlled(Policy::Serial(vec![]), 3, None, 100_000, ||
    {
        let h = shim::thread::spawn(move || { if true { panic!("boom"); } });
        h.join().is_err()
    });
    check(value == Some(true), "shim join returns Err on panic", failures);
    check(report.panics.len() == 1, "shim records panic", failures);
}

pub fn model_vs_fresh_build(failures : &mut Vec<String>, cases : u64, seed : u64) -> u64
{
    let mut compared = 0;
    for case in 0..cases
    {
        let mut rng = Rng::new(crate::verif::util::mix(seed, case));
        let graph = gen::any_graph(&mut rng, 7);
        let mut w = World::new(rng.next_u64(), Clock::Distinct, graph.rules.clone());
        w.ensure_leaves();
        let obs = w.invoke_build(None, &SchedChoice::serial());
        let (v, n) = world::m_final(&obs);
        compared += n as u64;
        if !obs.verdict.is_ok()
        {
            // the only legitimate reason on a valid generated graph would be a ruler defect in sorting; report separately
            failures.push(format!("fresh build of a generated valid graph returned {} (shape {})", obs.verdict.short(), graph.shape));
        }
        for x in v { failures.push(format!("fresh build differs from the model: {}", x.what)); }
    }
    compared
}

#[test]
#[ignore]
fn selftest()
{
    let params = Params::from_env("selftest");
    let mut failures = vec![];
    sha_vectors(&mut failures);
    shim_semantics(&mut failures);
    let compared = model_vs_fresh_build(&mut failures, params.cases, params.seed);
    emit(&J::obj(vec![
        ("type", J::s("selftest")),
        ("targets_compared", J::u(compared)),
        ("failures", J::strs(&failures)),
    ]));
}
