// Entry points.  Each driver is an #[ignore]d test run by /verif/check with parameters in VERIF_* env vars.
pub mod common;
pub mod selftest;
pub mod hist;
pub mod sortd;
pub mod sched;
pub mod crash;
pub mod contra;
pub mod pair;
pub mod parse;
pub mod ident;
pub mod hashd;
pub mod codec;
