// C17: a rule that is not reproducible is reported.  A rule gets an undeclared input feeding a chosen subset of
// its outputs; after a first build the undeclared file changes and a re-execution is forced (a target is deleted or
// tampered so that it cannot be restored).  The build must fail with a contradiction naming exactly the differing
// targets, keep the earlier record (observed by decoding the history file and behaviourally after restoring the
// undeclared input), and leave independent rules correct.

use std::collections::{BTreeMap, BTreeSet};

use crate::history::RuleHistory;
use crate::verif::drivers::common::{emit_violation, Params, Tally};
use crate::verif::gen;
use crate::verif::model::{GRule, RuleStatus};
use crate::verif::util::{fnv_str, mix, Rng, J};
use crate::verif::vsys::{Clock, Op, ruler_dir};
use crate::verif::world::{self, Obs, SchedChoice, Verdict, Violation, WErr, World};

fn history_of(world : &World, rule : &GRule) -> Option<RuleHistory>
{
    let ticket = crate::rule::Rule::new(rule.targets(), rule.sources.clone(), rule.command_lines()).get_ticket();
    let bytes = world.sys.read_file(&format!("{}/history/{}", ruler_dir(), ticket.human_readable()))?;
    bincode::deserialize::<RuleHistory>(&bytes).ok()
}

pub fn drive()
{
    let params = Params::from_env("contra");
    let mut tally = Tally::new();
    let mut timed_out = false;
    for case in params.case_list()
    {
        if params.out_of_time() { timed_out = true; break; }
        let mut rng = params.case_rng(case);
        let shape = ["second_target", "wide_multi", "components"][rng.below(3)];
        let mut graph = if rng.chance(1, 2) { gen::preset_graph(&mut rng, shape) } else { gen::random_graph(&mut rng, 6) };

        // choose the irreproducible rule and the outputs its undeclared input feeds
        let multi : Vec<usize> = (0..graph.rules.len()).filter(|i| graph.rules[*i].outs.len() >= 2).collect();
        let r = if multi.len() > 0 && rng.chance(3, 4) { multi[rng.below(multi.len())] } else { rng.below(graph.rules.len()) };
        let undeclared = "env/one".to_string();
        let bit = graph.rules[r].sources.len() as u32;
        let n_outs = graph.rules[r].outs.len();
        let subset : u32 = rng.below(1 << n_outs) as u32; // every subset of the outputs, the empty one included
        graph.rules[r].undeclared = vec![undeclared.clone()];
        graph.rules[r].split = false;
        for (k, o) in graph.rules[r].outs.iter_mut().enumerate()
        {
            o.raw = false;
            o.mask &= !(1 << bit);
            if (subset >> k) & 1 == 1 { o.mask |= 1 << bit; }
        }
        let fed : BTreeSet<String> = graph.rules[r].outs.iter().enumerate().filter(|(k, _)| (subset >> k) & 1 == 1).map(|(_, o)| o.path.clone()).collect();

        let mut w = World::new(rng.next_u64(), Clock::Distinct, graph.rules.clone());
        w.ensure_leaves();
        tally.cases_run += 1;
        let mut found : Vec<Violation> = vec![];
        let mut notes : Vec<String> = vec![format!("rule #{} ({}) reads undeclared {}; it feeds {:?}", r, graph.rules[r].targets().join(","), undeclared, fed)];

        // 1. first build
        let obs1 = w.invoke_build(None, &SchedChoice::serial());
        notes.push(format!("build 1: {}", obs1.verdict.short()));
        if !obs1.verdict.is_ok()
        {
            found.push(Violation::new("C17", "first-build-failed", format!("the first build returned {}", obs1.verdict.short())));
        }
        found.extend(world::m_final(&obs1).0.into_iter().map(|v| Violation::new("C17", &format!("first-build:{}", v.signature), v.what)));
        let first_outputs : BTreeMap<String, Vec<u8>> = graph.rules.iter().flat_map(|x| x.targets()).filter_map(|t| obs1.after.read(&t).map(|b| (t, b.clone()))).collect();
        let mut record_before = history_of(&w, &graph.rules[r]);

        // a long life in between: the rule is built for dozens of other states of one of its declared leaf sources, then the
        // leaf returns to its first content and the first outputs are no longer in the cache, so that the first record is
        // the only thing left to contradict
        let produced_paths : BTreeSet<String> = graph.rules.iter().flat_map(|x| x.targets()).collect();
        let own_leaves : Vec<String> = graph.rules[r].sources.iter().filter(|s| !produced_paths.contains(*s)).cloned().collect();
        if found.len() == 0 && own_leaves.len() > 0 && case % 24 == 3
        {
            let leaf = own_leaves[rng.below(own_leaves.len())].clone();
            let original = w.sys.read_file(&leaf).unwrap_or(vec![]);
            let versions = rng.range(33, 44);
            for k in 0..versions
            {
                let c = w.fresh_content("life");
                w.write_leaf(&leaf, c);
                let o = w.invoke_build(None, &SchedChoice::serial());
                if !o.verdict.is_ok()
                {
                    found.push(Violation::new("C17", "build-in-long-history-failed", format!("build number {} of a long history returned {}", k + 2, o.verdict.short())));
                    break;
                }
            }
            w.write_leaf(&leaf, original);
            let own_first : Vec<&Vec<u8>> = graph.rules[r].targets().iter().filter_map(|t| first_outputs.get(t)).collect();
            let disk = w.sys.disk();
            for (name, bytes) in world::cache_files(&disk)
            {
                if own_first.iter().any(|b| **b == bytes) { w.sys.user_remove(&format!("{}/cache/{}", ruler_dir(), name)); }
            }
            record_before = history_of(&w, &graph.rules[r]);
            notes.push(format!("{} more builds with other contents of {}, then its first content again; the first outputs removed from the cache", versions, leaf));
            tally.counts.inc("long_histories");
        }

        let rounds = 1 + rng.below(2);
        for round in 0..rounds
        {
            if found.len() > 0 { break; }
            // 2. the undeclared input changes; force a re-execution
            let old_env = w.sys.read_file(&undeclared).unwrap_or(vec![]);
            let new_env = w.fresh_content("env");
            w.sys.tick();
            w.sys.user_write(&undeclared, &new_env, false);
            let victim = graph.rules[r].outs[rng.below(n_outs)].path.clone();
            if rng.chance(1, 2)
            {
                w.sys.tick();
                w.sys.user_remove(&victim);
                notes.push(format!("round {}: undeclared input changed, target {} deleted", round, victim));
            }
            else
            {
                let c = w.fresh_content("tamper");
                w.sys.tick();
                w.sys.user_write(&victim, &c, false);
                notes.push(format!("round {}: undeclared input changed, target {} tampered", round, victim));
            }

            let obs2 = w.invoke_build(None, &SchedChoice::serial());
            notes.push(format!("build 2: {}", obs2.verdict.short()));
            let reran = obs2.ran.contains_key(&r);
            tally.eval(mix(gen::shape_hash(&graph.rules), mix(subset as u64, mix(case, round as u64))), reran && fed.len() > 0);
            tally.counts.inc(&format!("fed_outputs:{}_of_{}", fed.len(), n_outs));
            if !reran
            {
                // ruler found a way not to re-execute (e.g. the content was recoverable after all): nothing to judge
                tally.counts.inc("reexecution_not_forced");
                break;
            }
            let expected_paths : Vec<String> = fed.iter().cloned().collect();
            if fed.len() == 0
            {
                if !obs2.verdict.is_ok()
                {
                    found.push(Violation::new("C17", "false-contradiction", format!("no output depends on the undeclared input, yet the build returned {}", obs2.verdict.short())));
                }
            }
            else
            {
                match &obs2.verdict
                {
                    Verdict::WorkErrors(list) =>
                    {
                        let contradictions : Vec<&WErr> = list.iter().filter(|e| match e { WErr::Contradiction(_) => true, _ => false }).collect();
                        if contradictions.len() != 1 || list.len() != 1
                        {
                            found.push(Violation::new("C17", "contradiction-error-count", format!("expected exactly one contradiction error, got {:?}", list)));
                        }
                        else if let WErr::Contradiction(paths) = contradictions[0]
                        {
                            let mut got = paths.clone(); got.sort();
                            if got != expected_paths
                            {
                                found.push(Violation::new("C17", "contradiction-names-wrong-targets", format!("the contradiction names {:?}; the targets that differ from the record are {:?}", paths, expected_paths)));
                            }
                        }
                    },
                    other => found.push(Violation::new("C17", "contradiction-not-reported",
                        format!("rule #{} re-ran on identical declared sources and produced different {:?}, but the build returned {}", r, expected_paths, other.short()))),
                }
                // the earlier record is unchanged
                let record_after = history_of(&w, &graph.rules[r]);
                if record_after != record_before
                {
                    found.push(Violation::new("C17", "record-changed", "the remembered outputs of the rule changed although the new execution contradicted them".to_string()));
                }
                // rules that do not depend on r are right
                for (i, s) in obs2.eval.status.iter().enumerate()
                {
                    if i == r || gen::depends_on(&graph.rules, i, r) { continue; }
                    if let RuleStatus::Ok(map) = s
                    {
                        for (path, (bytes, _)) in map.iter()
                        {
                            if obs2.after.read(path) != Some(bytes)
                            {
                                found.push(Violation::new("C17", "other-rule-affected", format!("rule #{} does not depend on the irreproducible rule but its target {} is wrong", i, path)));
                            }
                        }
                    }
                }
                // dependents must not have run on the contradicted outputs
                for (i, _) in obs2.ran.iter()
                {
                    if *i != r && gen::depends_on(&graph.rules, *i, r)
                    {
                        found.push(Violation::new("C17", "dependent-ran-after-contradiction", format!("rule #{} depends on the contradicted rule but its command ran", i)));
                    }
                }
            }
            if found.len() > 0 { break; }

            // 3. restore the undeclared input: the old record applies again
            w.sys.tick();
            w.sys.user_write(&undeclared, &old_env, false);
            let obs3 = w.invoke_build(None, &SchedChoice::serial());
            notes.push(format!("build 3 (undeclared input restored): {}", obs3.verdict.short()));
            if !obs3.verdict.is_ok()
            {
                found.push(Violation::new("C17", "build-after-restoring-input-failed", format!("with the undeclared input restored the build returned {}", obs3.verdict.short())));
            }
            else
            {
                for (t, bytes) in first_outputs.iter()
                {
                    if obs3.after.read(t) != Some(bytes)
                    {
                        found.push(Violation::new("C17", "old-outputs-not-reproduced", format!("target {} differs from the first build although every input is as it was", t)));
                    }
                }
                if history_of(&w, &graph.rules[r]) != record_before
                {
                    found.push(Violation::new("C17", "record-changed", "the remembered outputs of the rule differ from the first record".to_string()));
                }
            }
        }

        let detail = J::obj(vec![
            ("rules_file", J::Str(w.rules_text())),
            ("steps", J::strs(&notes)),
        ]);
        if tally.wants_sample() && found.len() == 0 && fed.len() > 0 { tally.sample(detail.clone()); }
        if let Some(v) = found.first()
        {
            emit_violation(&params, &mut tally, case, v, detail);
        }
    }
    tally.emit_summary(&params, timed_out);
}

#[test] #[ignore] fn contra_c17() { drive(); }
