// Schedule driver: one scenario (graph + prepared initial state + final build or clean), many schedules.
// Serves C03 (commands start only when their sources are final), C04 (failure containment),
// C05 (termination), C06 (outcome independent of the schedule).  The same scenarios also run
// free (real OS threads, std channels, jitter) with the same monitors.

use std::collections::{BTreeMap, BTreeSet};

use crate::verif::drivers::common::{emit_inconclusive, emit_violation, Params, Tally};
use crate::verif::drivers::hist::{self, HOp, HistCfg, HistRun};
use crate::verif::gen::{self, Graph};
use crate::verif::model::RuleStatus;
use crate::verif::shim::Policy;
use crate::verif::util::{env_str, fnv64, fnv_str, mix, Rng, J};
use crate::verif::vsys::{Clock, Op, VSys, Who, ruler_dir};
use crate::verif::world::{self, Obs, SchedChoice, Verdict, Violation, WErr};

#[derive(Clone, Debug)]
pub enum Final
{
    Build(Option<String>),
    Clean(Option<String>),
}

pub struct Scenario
{
    pub run : HistRun,
    pub label : String,
    pub final_op : Final,
    pub failures_injected : usize,
}

fn pick_graph(rng : &mut Rng, prop : &str, thorough : bool) -> Graph
{
    let max_rules = if thorough { 8 } else { 6 };
    if prop == "C06" && rng.chance(3, 5)
    {
        return gen::preset_graph(rng, "twins");
    }
    if prop == "C05" && rng.chance(1, 3)
    {
        let shape = *rng.pick(&["fan_in", "fan_out", "components", "wide_multi", "k4"]);
        return gen::preset_graph(rng, shape);
    }
    gen::any_graph(rng, max_rules)
}

pub fn make_scenario(rng : &mut Rng, prop : &str, thorough : bool) -> Scenario
{
    let graph = pick_graph(rng, prop, thorough);
    let mut cfg = HistCfg::base(thorough);
    cfg.random_sched_pct = 0;
    let mut run = HistRun::new(rng, cfg, graph);

    let leaves : Vec<String> = run.world.rules.iter().flat_map(|r| r.sources.clone())
        .filter(|s| !run.world.rules.iter().any(|r| r.targets().contains(s))).collect::<BTreeSet<String>>().into_iter().collect();
    let targets : Vec<String> = run.world.rules.iter().flat_map(|r| r.targets()).collect();
    let some_leaf = |rng : &mut Rng| leaves[rng.below(leaves.len())].clone();
    let some_target = |rng : &mut Rng| targets[rng.below(targets.len())].clone();
    let goal = |rng : &mut Rng| if rng.chance(1, 3) { Some(targets[rng.below(targets.len())].clone()) } else { None };

    let class = if prop == "C06" { *rng.pick(&[2usize, 2, 2, 6, 6, 8, 1, 4, 9, 9, 9]) } else if prop == "C05" { rng.below(11) } else { rng.below(10) };
    let (label, prep) : (&str, Vec<HOp>) = match class
    {
        0 => ("fresh", vec![]),
        1 => ("built", vec![HOp::Build(None)]),
        2 => ("built+cleaned", vec![HOp::Build(None), HOp::Clean(goal(rng))]),
        3 =>
        {
            let mut ops = vec![HOp::Build(None), HOp::EditLeaf(some_leaf(rng))];
            if rng.chance(1, 2) { ops.push(HOp::EditLeaf(some_leaf(rng))); }
            ("built+leaf-edited", ops)
        },
        4 => ("built+tampered", vec![HOp::Build(None), HOp::Tamper(some_target(rng))]),
        5 => { let l = some_leaf(rng); ("built+edited+built+cache-entry-deleted+reverted", vec![HOp::Build(None), HOp::EditLeaf(l.clone()), HOp::Build(None), HOp::DeleteCacheEntry, HOp::RevertLeaf(l)]) },
        6 => { let l = some_leaf(rng); ("built+edited+built+reverted", vec![HOp::Build(None), HOp::EditLeaf(l.clone()), HOp::Build(None), HOp::RevertLeaf(l)]) },
        7 => ("built+rule-edited", vec![HOp::Build(None), HOp::EditRule]),
        9 =>
        {
            // some rules cleaned one by one (they will restore), another rule's leaf edited (it will back up what it holds):
            // with byte-identical contents restores and a back-up meet on one cache entry
            let mut ops = vec![HOp::Build(None)];
            let mut pool = targets.clone();
            rng.shuffle(&mut pool);
            for t in pool.iter().take(2) { ops.push(HOp::Clean(Some(t.clone()))); }
            ops.push(HOp::EditLeaf(some_leaf(rng)));
            if rng.chance(1, 2) { ops.push(HOp::EditLeaf(some_leaf(rng))); }
            ("built+two-goals-cleaned+leaf-edited", ops)
        },
        10 => ("built+cleaned+target-directories-removed", vec![HOp::Build(None), HOp::Clean(None), HOp::RemoveTargetDirs]),
        _ => ("built+cleaned+tampered", vec![HOp::Build(None), HOp::Clean(None), HOp::Tamper(some_target(rng))]),
    };

    for op in prep.iter()
    {
        run.op_kinds.push(format!("{:?}", op).split(|c| c == '(' || c == ' ').next().unwrap_or("").to_string());
        run.world.note_op(format!("{:?}", op));
        if !run.apply_user_op(rng, op)
        {
            let obs = match op
            {
                HOp::Build(g) => run.world.invoke_build(g.clone(), &SchedChoice::serial()),
                HOp::Clean(g) => run.world.invoke_clean(g.clone(), &SchedChoice::serial()),
                _ => continue,
            };
            run.world.absorb(&obs);
        }
    }

    // C05 quantifies over every graph the tool ACCEPTS: offer it graphs that it must reject (a rule that lists another of
    // its own targets as a source, a two-rule cycle, a target claimed twice); if it accepts one, termination is judged
    if prop == "C05" && rng.chance(1, 6)
    {
        let mut next = run.world.rules.clone();
        let multi : Vec<usize> = (0..next.len()).filter(|i| next[*i].outs.len() >= 2).collect();
        let kind = rng.below(3);
        if kind == 0 && multi.len() > 0
        {
            let i = multi[rng.below(multi.len())];
            let k = rng.below(next[i].outs.len());
            let own = next[i].outs[k].path.clone();
            next[i].sources.push(own);
            run.world.note_op(format!("InvalidEdit(rule #{} lists its own target #{} as a source)", i, k));
        }
        else if kind == 1 && next.len() >= 2
        {
            let a = rng.below(next.len());
            let b = (a + 1 + rng.below(next.len() - 1)) % next.len();
            let ta = next[a].outs[rng.below(next[a].outs.len())].path.clone();
            let tb = next[b].outs[rng.below(next[b].outs.len())].path.clone();
            if !next[a].sources.contains(&tb) { next[a].sources.push(tb); }
            if !next[b].sources.contains(&ta) { next[b].sources.push(ta); }
            run.world.note_op(format!("InvalidEdit(rules #{} and #{} depend on each other)", a, b));
        }
        else if next.len() >= 2
        {
            let a = rng.below(next.len());
            let b = (a + 1 + rng.below(next.len() - 1)) % next.len();
            let stolen = next[a].outs[0].clone();
            next[b].outs.push(stolen);
            run.world.note_op(format!("InvalidEdit(rule #{} also claims a target of rule #{})", b, a));
        }
        run.world.set_rules(next);
    }

    // C05 also covers invocations that must end with an error VALUE because a state file is unreadable (damaged by hand,
    // by a disk, by another tool): whatever the interleaving, no panic, no hang, no channel error
    if prop == "C05" && rng.chance(1, 6)
    {
        let mut candidates = run.world.sys.disk().files_under(&format!("{}/history", ruler_dir()));
        candidates.push(format!("{}/current_file_states", ruler_dir()));
        let victim = candidates[rng.below(candidates.len())].clone();
        if let Some(bytes) = run.world.sys.read_file(&victim)
        {
            let damaged : Vec<u8> = match rng.below(3)
            {
                0 => vec![],
                1 => bytes[..bytes.len() / 2].to_vec(),
                _ => { let mut b = bytes.clone(); for x in b.iter_mut().take(12) { *x = 0xff; } b },
            };
            run.world.sys.tick();
            run.world.sys.user_write(&victim, &damaged, false);
            run.world.note_op(format!("DamageStateFile({}, {} of {} bytes kept)", victim, damaged.len(), bytes.len()));
        }
    }

    // failure injection
    let mut failures = 0;
    let want_failures = match prop { "C04" => rng.range(1, 3), "C05" => rng.below(3), _ => if rng.chance(1, 5) { 1 } else { 0 } };
    let leaves_now : Vec<String> = run.world.rules.iter().flat_map(|r| r.sources.clone())
        .filter(|s| !run.world.rules.iter().any(|r| r.targets().contains(s))).collect::<BTreeSet<String>>().into_iter().collect();
    for _ in 0..want_failures
    {
        if leaves_now.len() == 0 { break; }
        let l = leaves_now[rng.below(leaves_now.len())].clone();
        let op = match rng.below(5)
        {
            0 => HOp::PoisonFail(l),
            4 =>
            {
                // one script line of a two-line command fails, the other succeeds
                if !run.world.rules.iter().any(|r| (r.precheck || (r.split && r.outs.len() >= 2)) && r.sources.contains(&l)) { continue; }
                HOp::PoisonFailStep(l, rng.below(2))
            },
            1 =>
            {
                let users : Vec<usize> = (0..run.world.rules.len()).filter(|i| run.world.rules[*i].sources.contains(&l)).collect();
                if users.len() == 0 { continue; }
                let r = &run.world.rules[users[rng.below(users.len())]];
                HOp::PoisonSkip(l, r.outs[rng.below(r.outs.len())].path.clone())
            },
            2 => HOp::DeleteLeaf(l),
            _ =>
            {
                // a command that is not a program
                let i = rng.below(run.world.rules.len());
                let mut next = run.world.rules.clone();
                next[i].garbage = true;
                run.world.note_op(format!("GarbageCommand(rule #{})", i));
                run.world.set_rules(next);
                failures += 1;
                continue;
            },
        };
        run.world.note_op(format!("{:?}", op));
        run.apply_user_op(rng, &op);
        failures += 1;
    }

    let targets_now : Vec<String> = run.world.rules.iter().flat_map(|r| r.targets()).collect();
    let final_goal = if targets_now.len() > 0 && rng.chance(1, 4) { Some(targets_now[rng.below(targets_now.len())].clone()) } else { None };
    let final_op = if (prop == "C05" || prop == "C11") && rng.chance(1, 4) { Final::Clean(final_goal) } else { Final::Build(final_goal) };
    Scenario { run : run, label : label.to_string(), final_op : final_op, failures_injected : failures }
}

fn policy_for(k : u64, rng : &mut Rng, serial_steps : u64) -> Policy
{
    if k == 0 { return Policy::Serial(vec![]); }
    match rng.below(4)
    {
        0 | 1 => Policy::Random,
        2 => Policy::Pct(rng.range(1, 3), serial_steps.max(10)),
        _ =>
        {
            let n = rng.range(1, 4);
            Policy::Serial((0..n).map(|_| 1 + rng.next_u64() % serial_steps.max(10)).collect())
        },
    }
}

/* canonical outcome for C06 */
fn outcome(obs : &Obs) -> (Verdict, BTreeMap<String, Vec<u8>>)
{
    (obs.verdict.clone(), world::user_files(&obs.after))
}

fn cache_ops(obs : &Obs) -> usize
{
    let prefix = format!("{}/cache/", ruler_dir());
    let tids : BTreeSet<usize> = obs.log.iter().filter(|e| e.who == Who::Ruler && (e.p1.starts_with(&prefix) || e.p2.starts_with(&prefix))).map(|e| e.tid).collect();
    tids.len()
}

fn scenario_detail(sc : &Scenario, obs : &Obs, extra : Vec<(&str, J)>) -> J
{
    let mut pairs = vec![
        ("graph_shape", J::s(&sc.run.graph_shape)),
        ("initial_state", J::s(&sc.label)),
        ("rules_file", J::Str(sc.run.world.rules_text())),
        ("preparation", J::strs(&sc.run.world.ops)),
        ("final_op", J::Str(format!("{:?}", sc.final_op))),
        ("verdict", J::Str(obs.verdict.short())),
        ("schedule_choices", J::Str(obs.report.choices.iter().map(|c| format!("{}", c)).collect::<Vec<String>>().join(" "))),
    ];
    pairs.extend(extra);
    J::obj(pairs)
}

pub fn drive(prop : &str)
{
    let params = Params::from_env("sched");
    let mut tally = Tally::new();
    let free_mode = env_str("VERIF_MODE", "ctl") == "free";
    let schedules_per_scenario = crate::verif::util::env_u64("VERIF_SCHEDULES", 30);
    let mut timed_out = false;

    for case in params.case_list()
    {
        if params.out_of_time() { timed_out = true; break; }
        let mut rng = params.case_rng(case);
        let mut sc = make_scenario(&mut rng, prop, params.thorough());
        tally.cases_run += 1;
        tally.counts.inc(&format!("state:{}", sc.label));
        tally.counts.inc(&format!("shape:{}", sc.run.graph_shape));
        let base = sc.run.world.sys.disk();
        let scenario_key = mix(sc.run.shape_hash, mix(fnv_str(&sc.run.world.ops.join(";")), case));
        // a target directory is missing (removed by the user after a clean): only what holds regardless is judged
        let broken = sc.run.world.env_broken();

        let mut first : Option<(u64, (Verdict, BTreeMap<String, Vec<u8>>), Vec<u32>)> = None;
        let mut distinct_schedules : BTreeSet<u64> = BTreeSet::new();
        let mut max_cache_threads = 0;
        let mut serial_steps = 200;
        let mut stop = false;

        for k in 0..schedules_per_scenario
        {
            if stop || params.out_of_time() { break; }
            sc.run.world.sys = VSys::from_disk(base.clone(), Clock::Distinct, mix(case, k));
            let choice = if free_mode
            {
                SchedChoice { policy : Policy::Random, seed : mix(params.seed, mix(case, k)), step_limit : 0, free : Some(true) }
            }
            else
            {
                SchedChoice { policy : policy_for(k, &mut rng, serial_steps), seed : mix(params.seed, mix(case, k)), step_limit : 400_000, free : None }
            };
            let obs = match &sc.final_op
            {
                Final::Build(g) => sc.run.world.invoke_build(g.clone(), &choice),
                Final::Clean(g) => sc.run.world.invoke_clean(g.clone(), &choice),
            };
            if k == 0 { serial_steps = obs.report.steps.max(10); }
            if obs.report.step_exceeded && prop == "C05"
            {
                // bounded progress (see the hist driver): the serial schedule of the same scenario took `serial_steps` steps
                let v = Violation::new("C05", "no-termination-within-step-bound",
                    format!("{} did not finish within {} scheduler steps (the serial schedule of this scenario takes about {})", obs.kind, obs.report.steps, serial_steps));
                emit_violation(&params, &mut tally, case, &v, scenario_detail(&sc, &obs, vec![("schedule_index", J::u(k))]));
                break;
            }
            if obs.report.step_exceeded
            {
                emit_inconclusive(&params, case, "scheduler step bound exceeded");
                break;
            }
            // identity of the interleaving: the scheduler's choice list, or (free-running) the observed order in which
            // the logical threads performed their System calls and sends
            let sched_hash = if free_mode
            {
                let order : Vec<u8> = obs.log.iter().map(|e| e.tid as u8).collect();
                fnv64(&order)
            }
            else { obs.report.schedule_hash() };
            let new_schedule = distinct_schedules.insert(sched_hash);
            let multi = obs.report.choices.len() >= 1 || free_mode;
            max_cache_threads = max_cache_threads.max(cache_ops(&obs));

            let mut found : Vec<Violation> = vec![];
            found.extend(obs.online.clone());
            let (v, handoffs) = world::m_handoff(&obs);
            found.extend(v);
            let (v, windows) = world::m_stable(&obs);
            found.extend(v);
            if prop == "C03" { tally.counts.add("command_windows_checked_for_source_stability", windows as u64); }
            let fail = world::m_fail(&obs);
            let fail_clean = fail.len() == 0;
            found.extend(fail);
            found.extend(world::m_live(&obs));
            if !sc.run.world.has_undeclared { found.extend(world::m_final(&obs).0); }
            found.extend(world::m_cas(&obs.after).0);
            found.extend(world::m_keep(&obs.before, &obs.after, &sc.run.world.ever_targets).0);
            found.extend(world::m_scope(&obs).0);
            let _ = fail_clean;
            found.extend(world::m_status(&obs).0);

            // C06: compare with the first schedule of this scenario
            let this = outcome(&obs);
            match &first
            {
                None => first = Some((sched_hash, this, obs.report.choices.clone())),
                Some((_, reference, ref_choices)) =>
                {
                    if *reference != this
                    {
                        let what = if reference.0 != this.0
                        {
                            format!("two schedules of one scenario give different verdicts: {} vs {}", reference.0.short(), this.0.short())
                        }
                        else
                        {
                            let mut diff = vec![];
                            let mut paths : BTreeSet<&String> = reference.1.keys().collect();
                            paths.extend(this.1.keys());
                            for p in paths { if reference.1.get(p) != this.1.get(p) { diff.push(p.clone()); } }
                            format!("two schedules of one scenario leave different workspace contents at {:?}", diff)
                        };
                        let cache_error = |v : &Verdict| match v { Verdict::WorkErrors(list) => list.iter().any(|e| match e { WErr::Resolution(t) => t.starts_with("CacheMalfunction"), _ => false }), _ => false };
                        let signature = if cache_error(&reference.0) != cache_error(&this.0) { "schedule-dependent:cache-race-CacheMalfunction" } else { "schedule-dependent" };
                        let mut v = Violation::new("C06", signature, what);
                        v.what.push_str(&format!(" (reference schedule choices {:?})", ref_choices));
                        found.push(v);
                    }
                },
            }

            if broken
            {
                found.retain(|x| match x.property.as_str() { "C05" | "C07" | "C08" | "C09" => true, _ => false });
            }

            // tallies
            let sched_key = mix(scenario_key, sched_hash);
            match prop
            {
                "C03" =>
                {
                    let produced_source_ran = obs.ran.keys().any(|i| obs.rules[*i].sources.iter().any(|s| obs.rules.iter().any(|r| r.targets().contains(s))));
                    if new_schedule { tally.eval(sched_key, produced_source_ran && multi); }
                    tally.counts.add("handoffs_checked", handoffs as u64);
                    tally.counts.add("command_starts_checked", obs.ran.values().sum::<usize>() as u64);
                },
                "C04" =>
                {
                    let failing = obs.eval.missing_leaves.len() + obs.eval.status.iter().filter(|s| match s { RuleStatus::CommandFails | RuleStatus::NotGenerated(_) => true, _ => false }).count();
                    let independent_work = obs.eval.status.iter().enumerate().any(|(i, s)| match s { RuleStatus::Ok(_) => obs.ran.contains_key(&i), _ => false });
                    if new_schedule { tally.eval(sched_key, failing > 0 && independent_work); }
                    if failing > 0 { tally.counts.inc("executions_with_failures"); }
                    let cancelled = obs.eval.status.iter().filter(|s| **s == RuleStatus::Cancelled).count();
                    tally.counts.add("cancelled_rules_observed", cancelled as u64);
                },
                "C05" =>
                {
                    if new_schedule { tally.eval(sched_key, obs.report.threads >= 3); }
                    tally.counts.add("max_blocked_seen", 0);
                    let cur = tally.counts.get("max_simultaneously_blocked");
                    if (obs.report.max_blocked as u64) > cur { tally.counts.add("max_simultaneously_blocked", obs.report.max_blocked as u64 - cur); }
                    tally.counts.inc(if obs.kind == "clean" { "clean_executions" } else { "build_executions" });
                },
                "C06" => {},
                _ =>
                {
                    // C07, C08, C20 under explored schedules: one evaluation per distinct interleaving of a scenario
                    if new_schedule { tally.eval(sched_key, multi && obs.report.threads >= 3); }
                },
            }
            tally.counts.inc("executions");

            if tally.wants_sample() && k == 3
            {
                tally.sample(scenario_detail(&sc, &obs, vec![("threads", J::i(obs.report.threads)), ("steps", J::u(obs.report.steps))]));
            }

            for v in found.iter()
            {
                if v.property == prop
                {
                    emit_violation(&params, &mut tally, case, v, scenario_detail(&sc, &obs, vec![("schedule_index", J::u(k))]));
                    stop = true;
                }
                else
                {
                    tally.counts.inc(&format!("other_property_alarm:{}:{}", v.property, v.signature));
                }
            }
        }

        if prop == "C06"
        {
            tally.eval(scenario_key, distinct_schedules.len() >= 2 && max_cache_threads >= 2);
            tally.counts.add("distinct_schedules", distinct_schedules.len() as u64);
        }
        else
        {
            tally.counts.add("distinct_schedules", distinct_schedules.len() as u64);
        }
    }
    tally.emit_summary(&params, timed_out);
}

#[test] #[ignore] fn sched_c03() { drive("C03"); }
#[test] #[ignore] fn sched_c04() { drive("C04"); }
#[test] #[ignore] fn sched_c05() { drive("C05"); }
#[test] #[ignore] fn sched_c06() { drive("C06"); }
#[test] #[ignore] fn sched_c07() { drive("C07"); }
#[test] #[ignore] fn sched_c08() { drive("C08"); }
#[test] #[ignore] fn sched_c20() { drive("C20"); }
