// History driver: generate a rule graph and a random history of user actions and ruler invocations,
// drive the real build()/clean() on VSys, and run the monitors after every invocation.
// Serves C01, C02, C07, C08, C09, C10, C20 (and contributes to C04, C05 with the serial schedule).

use std::collections::{BTreeMap, BTreeSet, VecDeque};

use crate::verif::drivers::common::{emit_inconclusive, emit_violation, Params, Tally};
use crate::verif::gen::{self, Graph};
use crate::verif::model::{GRule, RuleStatus};
use crate::verif::shim::Policy;
use crate::verif::util::{fnv64, fnv_str, mix, Rng, J};
use crate::verif::vsys::{Clock, Op, Who, ruler_dir};
use crate::verif::world::{self, Obs, SchedChoice, Verdict, Violation, World};

#[derive(Clone, Debug)]
pub enum HOp
{
    EditLeaf(String),
    RevertLeaf(String),
    DeleteLeaf(String),
    PoisonFail(String),
    PoisonSkip(String, String),
    SwapLeaves(String, String),
    EditRule,
    RevertRules,
    ReRender,
    Build(Option<String>),
    BuildAgain,
    Clean(Option<String>),
    Tamper(String),
    DeleteTarget(String),
    DeleteCacheEntry,
    DeleteRulerDir,
    DeleteCacheDir,
    DeleteHistoryDir,
    DeleteHistoryFile,
    DeleteTable,
    BuildCleanBuild(Option<String>),
    /* the user copies a target aside (a new file) ... */
    /* the user removes every empty directory that exists only to hold targets (after a clean: `rmdir out gen/sub gen bin`) ... */
    RemoveTargetDirs,
    /* ... and makes them again */
    MakeTargetDirs,
    /* the user overwrites a target with something of their own and takes away the permission to read it; gives it back */
    TamperUnreadable(String),
    MakeReadable(String),
    StashTarget(String),
    /* ... and later moves the stashed copy back over the target, as `mv` does: the file keeps its older modification time */
    UnstashOver(String),
    /* only script line k of the commands reading this leaf fails */
    PoisonFailStep(String, usize),
}

/* weights indexed like the match in choose_op */
#[derive(Clone, Debug)]
pub struct HistCfg
{
    pub max_ops : usize,
    pub max_rules : usize,
    pub weights : Vec<usize>,
    pub motif_pct : usize,
    /* half of the motifs are the ones in which contents travel between paths (leaves swapped back and forth) */
    pub travel_bias : bool,
    pub random_sched_pct : usize,
    pub decoys : bool,
    pub failures : bool,
    pub clock : Clock,
}

pub const W_EDIT_LEAF : usize = 0;
pub const W_REVERT_LEAF : usize = 1;
pub const W_EDIT_RULE : usize = 2;
pub const W_REVERT_RULES : usize = 3;
pub const W_BUILD_ALL : usize = 4;
pub const W_BUILD_GOAL : usize = 5;
pub const W_CLEAN_ALL : usize = 6;
pub const W_CLEAN_GOAL : usize = 7;
pub const W_TAMPER : usize = 8;
pub const W_DELETE_TARGET : usize = 9;
pub const W_DELETE_CACHE_ENTRY : usize = 10;
pub const W_DELETE_RULER : usize = 11;
pub const W_DELETE_CACHE : usize = 12;
pub const W_DELETE_HISTORY : usize = 13;
pub const W_DELETE_HISTORY_FILE : usize = 14;
pub const W_DELETE_TABLE : usize = 15;
pub const W_BUILD_AGAIN : usize = 16;
pub const W_POISON_FAIL : usize = 17;
pub const W_POISON_SKIP : usize = 18;
pub const W_DELETE_LEAF : usize = 19;
pub const W_SWAP_LEAVES : usize = 20;
pub const W_RERENDER : usize = 21;
pub const W_STASH : usize = 22;
pub const W_UNSTASH : usize = 23;
pub const W_POISON_STEP : usize = 24;
pub const W_COUNT : usize = 25;

impl HistCfg
{
    pub fn base(thorough : bool) -> HistCfg
    {
        let mut w = vec![0; W_COUNT];
        w[W_EDIT_LEAF] = 10; w[W_REVERT_LEAF] = 6; w[W_EDIT_RULE] = 5; w[W_REVERT_RULES] = 2;
        w[W_BUILD_ALL] = 14; w[W_BUILD_GOAL] = 6; w[W_CLEAN_ALL] = 3; w[W_CLEAN_GOAL] = 2;
        w[W_TAMPER] = 4; w[W_DELETE_TARGET] = 3; w[W_DELETE_CACHE_ENTRY] = 2; w[W_DELETE_RULER] = 1;
        w[W_DELETE_CACHE] = 1; w[W_DELETE_HISTORY] = 1; w[W_DELETE_HISTORY_FILE] = 1; w[W_DELETE_TABLE] = 1;
        w[W_BUILD_AGAIN] = 4; w[W_SWAP_LEAVES] = 2; w[W_RERENDER] = 1; w[W_STASH] = 2; w[W_UNSTASH] = 3;
        // every property quantifies over histories in which commands may fail: a little of it everywhere
        w[W_POISON_FAIL] = 2; w[W_POISON_SKIP] = 1; w[W_POISON_STEP] = 2; w[W_DELETE_LEAF] = 1;
        HistCfg
        {
            max_ops : if thorough { 40 } else { 14 },
            max_rules : if thorough { 12 } else { 7 },
            weights : w,
            motif_pct : 25,
            travel_bias : false,
            random_sched_pct : 10,
            decoys : false,
            failures : true,
            clock : Clock::Distinct,
        }
    }

    pub fn for_property(prop : &str, thorough : bool) -> HistCfg
    {
        let mut c = HistCfg::base(thorough);
        match prop
        {
            "C02" =>
            {
                c.weights[W_REVERT_LEAF] = 12; c.weights[W_BUILD_AGAIN] = 8; c.weights[W_CLEAN_ALL] = 5; c.weights[W_REVERT_RULES] = 4; c.weights[W_RERENDER] = 4;
                c.motif_pct = 40;
            },
            "C04" | "C05" =>
            {
                c.failures = true;
                c.weights[W_POISON_FAIL] = 6; c.weights[W_POISON_SKIP] = 4; c.weights[W_DELETE_LEAF] = 4; c.weights[W_BUILD_AGAIN] = 6; c.weights[W_POISON_STEP] = 4;
                c.random_sched_pct = 50;
            },
            "C07" =>
            {
                c.failures = true;
                c.weights[W_TAMPER] = 10; c.weights[W_DELETE_TARGET] = 5; c.weights[W_POISON_FAIL] = 4; c.weights[W_CLEAN_ALL] = 6; c.weights[W_CLEAN_GOAL] = 4;
                c.weights[W_STASH] = 5; c.weights[W_UNSTASH] = 7;
            },
            "C08" =>
            {
                c.failures = true;
                c.weights[W_TAMPER] = 12; c.weights[W_POISON_FAIL] = 5; c.weights[W_POISON_SKIP] = 3; c.weights[W_EDIT_RULE] = 9; c.weights[W_CLEAN_ALL] = 5;
                c.weights[W_STASH] = 5; c.weights[W_UNSTASH] = 7; c.weights[W_CLEAN_GOAL] = 5;
            },
            "C09" =>
            {
                c.decoys = true;
                c.weights[W_BUILD_GOAL] = 14; c.weights[W_CLEAN_GOAL] = 8; c.weights[W_BUILD_ALL] = 6;
            },
            "C10" =>
            {
                c.weights[W_CLEAN_ALL] = 8; c.weights[W_CLEAN_GOAL] = 8;
                c.motif_pct = 50;
            },
            "C20" =>
            {
                c.failures = true;
                c.weights[W_POISON_FAIL] = 3; c.weights[W_POISON_SKIP] = 2; c.weights[W_TAMPER] = 6; c.weights[W_CLEAN_GOAL] = 4; c.weights[W_POISON_STEP] = 3;
                c.random_sched_pct = 30;
            },
            _ => {},
        }
        c
    }
}

pub struct HistRun
{
    pub world : World,
    pub cfg : HistCfg,
    pub graph_shape : String,
    pub shape_hash : u64,
    pub op_kinds : Vec<String>,
    pub queue : VecDeque<HOp>,
    pub last_build_goal : Option<Option<String>>,
    pub successful_builds : usize,
    pub ticket_names : BTreeMap<String, String>,
    pub sched_random : bool,
    pub sched_seed : u64,
    /* pending C10 judgement: (goal, pre-clean targets with bytes+exec, distinct?) */
    pub pending_clean : Option<(Option<String>, BTreeMap<String, (Vec<u8>, bool)>)>,
}

fn kind_of(op : &HOp) -> String
{
    let text = format!("{:?}", op);
    text.split(|c| c == '(' || c == ' ').next().unwrap_or("").to_string()
}

impl HistRun
{
    pub fn new(rng : &mut Rng, cfg : HistCfg, graph : Graph) -> HistRun
    {
        let mut world = World::new(rng.next_u64(), cfg.clock, graph.rules.clone());
        if cfg.decoys
        {
            for d in gen::DECOYS
            {
                let c = world.fresh_content("decoy");
                world.sys.tick();
                world.sys.user_write(d, &c, rng.chance(1, 4));
            }
        }
        world.ensure_leaves();
        if graph.shape == "twins"
        {
            // make the copied leaves byte-identical
            let leaves = graph.leaves.clone();
            let content = world.fresh_content("twin");
            for l in leaves { world.write_leaf(&l, content.clone()); }
        }
        let sched_random = rng.below(100) < cfg.random_sched_pct;
        let mut run = HistRun
        {
            world : world,
            cfg : cfg,
            graph_shape : graph.shape.clone(),
            shape_hash : gen::shape_hash(&graph.rules),
            op_kinds : vec![],
            queue : VecDeque::new(),
            last_build_goal : None,
            successful_builds : 0,
            ticket_names : BTreeMap::new(),
            sched_random : sched_random,
            sched_seed : rng.next_u64(),
            pending_clean : None,
        };
        run.remember_tickets();
        run
    }

    fn remember_tickets(&mut self)
    {
        for r in self.world.rules.iter()
        {
            let rule = crate::rule::Rule::new(r.targets(), r.sources.clone(), r.command_lines());
            self.ticket_names.insert(rule.get_ticket().human_readable(), r.canon());
        }
    }

    pub fn sched(&mut self) -> SchedChoice
    {
        if self.sched_random
        {
            self.sched_seed = mix(self.sched_seed, 7);
            SchedChoice { policy : Policy::Random, seed : self.sched_seed, step_limit : 2_000_000, free : None }
        }
        else
        {
            SchedChoice::serial()
        }
    }

    fn current_targets(&self) -> Vec<String>
    {
        self.world.rules.iter().flat_map(|r| r.targets()).collect()
    }

    fn current_leaves(&self) -> Vec<String>
    {
        let produced : BTreeSet<String> = self.current_targets().into_iter().collect();
        let mut leaves : Vec<String> = vec![];
        for r in self.world.rules.iter()
        {
            for s in r.sources.iter() { if !produced.contains(s) && !leaves.contains(s) { leaves.push(s.clone()); } }
        }
        leaves
    }

    fn random_goal(&mut self, rng : &mut Rng) -> Option<String>
    {
        let t = self.current_targets();
        if t.len() == 0 { None } else { Some(t[rng.below(t.len())].clone()) }
    }

    pub fn choose_op(&mut self, rng : &mut Rng) -> HOp
    {
        if let Some(op) = self.queue.pop_front() { return op; }

        if rng.below(100) < self.cfg.motif_pct
        {
            let leaves = self.current_leaves();
            let targets = self.current_targets();
            let pick = if self.cfg.travel_bias && rng.chance(1, 2) { *rng.pick(&[4usize, 6, 6]) } else { rng.below(10) };
            match pick
            {
                9 if leaves.len() > 0 && targets.len() > 0 =>
                {
                    // a target the user has overwritten and made unreadable while an older version of it waits in the cache
                    let l = leaves[rng.below(leaves.len())].clone();
                    let t = targets[rng.below(targets.len())].clone();
                    self.queue.extend(vec![HOp::Build(None), HOp::EditLeaf(l.clone()), HOp::Build(None), HOp::TamperUnreadable(t.clone()), HOp::RevertLeaf(l),
                        HOp::Build(None), HOp::BuildAgain, HOp::MakeReadable(t), HOp::Build(None)]);
                },
                8 =>
                {
                    // everything cleaned away, the emptied directories removed as well, builds attempted in that state, the
                    // directories made again
                    let g = if rng.chance(1, 3) { self.random_goal(rng) } else { None };
                    self.queue.extend(vec![HOp::Build(None), HOp::Clean(g), HOp::RemoveTargetDirs, HOp::Build(None), HOp::BuildAgain, HOp::MakeTargetDirs, HOp::Build(None)]);
                },
                0 if leaves.len() > 0 =>
                {
                    let l = leaves[rng.below(leaves.len())].clone();
                    self.queue.extend(vec![HOp::Build(None), HOp::EditLeaf(l.clone()), HOp::Build(None), HOp::RevertLeaf(l), HOp::Build(None)]);
                },
                1 =>
                {
                    let g = if rng.chance(1, 2) { self.random_goal(rng) } else { None };
                    self.queue.extend(vec![HOp::BuildCleanBuild(g)]);
                },
                2 =>
                {
                    self.queue.extend(vec![HOp::Build(None), HOp::EditRule, HOp::Build(None), HOp::RevertRules, HOp::Build(None)]);
                },
                3 if targets.len() > 0 =>
                {
                    let t = targets[rng.below(targets.len())].clone();
                    self.queue.extend(vec![HOp::Build(None), HOp::Tamper(t), HOp::Build(None)]);
                },
                4 if leaves.len() > 1 =>
                {
                    let a = leaves[rng.below(leaves.len())].clone();
                    let b = leaves[rng.below(leaves.len())].clone();
                    if a != b
                    {
                        let g = self.random_goal(rng);
                        if rng.chance(1, 2)
                        {
                            self.queue.extend(vec![HOp::Build(None), HOp::SwapLeaves(a.clone(), b.clone()), HOp::Build(None), HOp::Clean(g), HOp::SwapLeaves(a, b), HOp::Build(None)]);
                        }
                        else
                        {
                            self.queue.extend(vec![HOp::Build(None), HOp::SwapLeaves(a.clone(), b.clone()), HOp::Build(None), HOp::SwapLeaves(a, b), HOp::Build(None)]);
                        }
                    }
                },
                5 if leaves.len() > 0 && targets.len() > 0 =>
                {
                    // a copy of a target is put aside, the target moves on, and the older copy is moved back over it (mv keeps
                    // the older modification time), possibly after part of the graph was cleaned
                    let t = targets[rng.below(targets.len())].clone();
                    let l = leaves[rng.below(leaves.len())].clone();
                    let g = self.random_goal(rng);
                    self.queue.extend(vec![HOp::Build(None), HOp::StashTarget(t.clone()), HOp::EditLeaf(l.clone()), HOp::Build(None), HOp::Clean(g),
                        HOp::UnstashOver(t), HOp::EditLeaf(l.clone()), HOp::Build(None), HOp::RevertLeaf(l), HOp::Build(None)]);
                },
                6 if leaves.len() > 2 && self.cfg.failures =>
                {
                    // contents travel between paths (swap, swap back) while an unrelated part of the graph fails and is repaired
                    let mut pool = leaves.clone();
                    rng.shuffle(&mut pool);
                    let (a, b, c) = (pool[0].clone(), pool[1].clone(), pool[2].clone());
                    // five swaps; the unrelated failure accompanies one of the builds after the second, third or fourth swap
                    let failing = rng.range(2, 4);
                    let mut ops = vec![HOp::Build(None)];
                    for k in 1..=5
                    {
                        ops.push(HOp::SwapLeaves(a.clone(), b.clone()));
                        if k == failing
                        {
                            ops.push(HOp::PoisonFail(c.clone()));
                            ops.push(HOp::Build(None));
                            ops.push(HOp::RevertLeaf(c.clone()));
                        }
                        ops.push(HOp::Build(None));
                    }
                    self.queue.extend(ops);
                },
                _ if leaves.len() > 0 && self.cfg.failures =>
                {
                    let l = leaves[rng.below(leaves.len())].clone();
                    self.queue.extend(vec![HOp::Build(None), HOp::PoisonFail(l.clone()), HOp::Build(None), HOp::BuildAgain, HOp::RevertLeaf(l), HOp::Build(None)]);
                },
                _ => {},
            }
            if let Some(op) = self.queue.pop_front() { return op; }
        }

        let leaves = self.current_leaves();
        let targets = self.current_targets();
        loop
        {
            let k = rng.weighted(&self.cfg.weights);
            let op = match k
            {
                W_EDIT_LEAF if leaves.len() > 0 => HOp::EditLeaf(leaves[rng.below(leaves.len())].clone()),
                W_REVERT_LEAF if leaves.len() > 0 => HOp::RevertLeaf(leaves[rng.below(leaves.len())].clone()),
                W_EDIT_RULE => HOp::EditRule,
                W_REVERT_RULES if self.world.rule_versions.len() > 1 => HOp::RevertRules,
                W_BUILD_ALL => HOp::Build(None),
                W_BUILD_GOAL if targets.len() > 0 => HOp::Build(Some(targets[rng.below(targets.len())].clone())),
                W_CLEAN_ALL => HOp::Clean(None),
                W_CLEAN_GOAL if targets.len() > 0 => HOp::Clean(Some(targets[rng.below(targets.len())].clone())),
                W_TAMPER if targets.len() > 0 => HOp::Tamper(targets[rng.below(targets.len())].clone()),
                W_DELETE_TARGET if targets.len() > 0 => HOp::DeleteTarget(targets[rng.below(targets.len())].clone()),
                W_DELETE_CACHE_ENTRY => HOp::DeleteCacheEntry,
                W_DELETE_RULER => HOp::DeleteRulerDir,
                W_DELETE_CACHE => HOp::DeleteCacheDir,
                W_DELETE_HISTORY => HOp::DeleteHistoryDir,
                W_DELETE_HISTORY_FILE => HOp::DeleteHistoryFile,
                W_DELETE_TABLE => HOp::DeleteTable,
                W_BUILD_AGAIN => HOp::BuildAgain,
                W_POISON_FAIL if leaves.len() > 0 => HOp::PoisonFail(leaves[rng.below(leaves.len())].clone()),
                W_POISON_SKIP if leaves.len() > 0 =>
                {
                    let l = leaves[rng.below(leaves.len())].clone();
                    let users : Vec<&GRule> = self.world.rules.iter().filter(|r| r.sources.contains(&l)).collect();
                    if users.len() == 0 { continue; }
                    let r = users[rng.below(users.len())];
                    let o = r.outs[rng.below(r.outs.len())].path.clone();
                    HOp::PoisonSkip(l, o)
                },
                W_DELETE_LEAF if leaves.len() > 0 => HOp::DeleteLeaf(leaves[rng.below(leaves.len())].clone()),
                W_SWAP_LEAVES if leaves.len() > 1 =>
                {
                    let a = leaves[rng.below(leaves.len())].clone();
                    let b = leaves[rng.below(leaves.len())].clone();
                    if a == b { continue; }
                    HOp::SwapLeaves(a, b)
                },
                W_RERENDER => HOp::ReRender,
                W_STASH if targets.len() > 0 => HOp::StashTarget(targets[rng.below(targets.len())].clone()),
                W_UNSTASH if targets.len() > 0 => HOp::UnstashOver(targets[rng.below(targets.len())].clone()),
                W_POISON_STEP if leaves.len() > 0 =>
                {
                    let l = leaves[rng.below(leaves.len())].clone();
                    if !self.world.rules.iter().any(|r| (r.precheck || (r.split && r.outs.len() >= 2)) && r.sources.contains(&l)) { continue; }
                    HOp::PoisonFailStep(l, rng.below(2))
                },
                _ => continue,
            };
            return op;
        }
    }

    /*  Apply a user-level operation.  Returns None for invocations (handled by the caller). */
    pub fn apply_user_op(&mut self, rng : &mut Rng, op : &HOp) -> bool
    {
        let w = &mut self.world;
        match op
        {
            HOp::EditLeaf(l) =>
            {
                let c = w.fresh_content(&l.replace("/", "_"));
                w.write_leaf(l, c);
            },
            HOp::RevertLeaf(l) =>
            {
                let versions = w.leaf_versions.get(l).cloned().unwrap_or(vec![]);
                if versions.len() == 0 { return true; }
                let pick = if versions.len() >= 2 && rng.chance(2, 3) { versions[versions.len() - 2].clone() } else { versions[rng.below(versions.len())].clone() };
                w.write_leaf(l, pick);
            },
            HOp::DeleteLeaf(l) =>
            {
                w.sys.tick();
                w.sys.user_remove(l);
                w.fresh_build = None;
            },
            HOp::PoisonFail(l) =>
            {
                w.counter += 1;
                let c = match w.counter % 5 { 0 => format!("!FAILSIG v{}", w.counter), 1 => format!("!FAILEXEC v{}", w.counter), _ => format!("!FAIL v{}", w.counter) }.into_bytes();
                w.write_leaf(l, c);
                // a poison version is not something to revert to
                if let Some(v) = w.leaf_versions.get_mut(l) { v.pop(); }
            },
            HOp::PoisonSkip(l, out) =>
            {
                w.counter += 1;
                let c = format!("!SKIP:{} v{}", out, w.counter).into_bytes();
                w.write_leaf(l, c);
                if let Some(v) = w.leaf_versions.get_mut(l) { v.pop(); }
            },
            HOp::PoisonFailStep(l, k) =>
            {
                w.counter += 1;
                let c = format!("!FAILSTEP:{} v{}", k, w.counter).into_bytes();
                w.write_leaf(l, c);
                if let Some(v) = w.leaf_versions.get_mut(l) { v.pop(); }
            },
            HOp::TamperUnreadable(t) =>
            {
                let c = w.fresh_content("private");
                w.sys.tick();
                w.sys.user_write(t, &c, false);
                w.sys.user_set_unreadable(t, true);
                w.fresh_build = None;
            },
            HOp::MakeReadable(t) =>
            {
                w.sys.user_set_unreadable(t, false);
            },
            HOp::RemoveTargetDirs =>
            {
                w.sys.tick();
                for d in ["gen/sub", "gen", "out", "bin"] { w.sys.user_rmdir(d); }
                w.fresh_build = None;
            },
            HOp::MakeTargetDirs =>
            {
                for d in ["gen/sub", "gen", "out", "bin"] { w.sys.user_mkdirs(d); }
            },
            HOp::StashTarget(t) =>
            {
                if let Some(bytes) = w.sys.read_file(t)
                {
                    w.sys.tick();
                    w.sys.user_write(&format!("stash/{}", t.replace("/", "_")), &bytes, false);
                }
            },
            HOp::UnstashOver(t) =>
            {
                let stash = format!("stash/{}", t.replace("/", "_"));
                if w.sys.read_file(&stash).is_some()
                {
                    w.sys.tick();
                    w.sys.user_move(&stash, t);
                    w.fresh_build = None;
                }
            },
            HOp::SwapLeaves(a, b) =>
            {
                let ca = w.sys.read_file(a);
                let cb = w.sys.read_file(b);
                if let (Some(ca), Some(cb)) = (ca, cb)
                {
                    w.write_leaf(a, cb);
                    w.write_leaf(b, ca);
                }
            },
            HOp::EditRule =>
            {
                for _ in 0..8
                {
                    let mut salt = w.salt_counter;
                    let proposal = gen::propose_edit(rng, &w.rules, &mut salt);
                    w.salt_counter = salt;
                    if let Some((edit, next)) = proposal
                    {
                        w.note_op(format!("  edit = {}", gen::describe_edit(&edit)));
                        w.set_rules(next);
                        w.ensure_leaves();
                        break;
                    }
                }
                self.remember_tickets();
            },
            HOp::RevertRules =>
            {
                if w.rule_versions.len() > 1
                {
                    let k = 1 + rng.below(w.rule_versions.len() - 1);
                    let old = w.rule_versions[k].clone();
                    if old.len() > 0
                    {
                        w.set_rules(old);
                        w.ensure_leaves();
                    }
                }
                self.remember_tickets();
            },
            HOp::ReRender =>
            {
                w.style = crate::verif::model::RenderStyle::random(rng);
                w.write_rules_file();
                // the rules did not change: a fresh build stays fresh only if nothing else happened; be conservative
                w.fresh_build = None;
            },
            HOp::Tamper(t) =>
            {
                if w.sys.lock().disk.is_file(t)
                {
                    let c = w.fresh_content("tamper");
                    w.sys.tick();
                    w.sys.user_write(t, &c, rng.chance(1, 4));
                    w.fresh_build = None;
                }
            },
            HOp::DeleteTarget(t) =>
            {
                w.sys.tick();
                w.sys.user_remove(t);
                w.fresh_build = None;
            },
            HOp::DeleteCacheEntry =>
            {
                let entries = world::cache_files(&w.sys.disk());
                if entries.len() > 0
                {
                    let name = entries[rng.below(entries.len())].0.clone();
                    w.sys.tick();
                    w.sys.user_remove(&format!("{}/cache/{}", ruler_dir(), name));
                }
                w.fresh_build = None;
            },
            HOp::DeleteRulerDir =>
            {
                w.sys.tick();
                w.sys.user_remove(ruler_dir());
                w.forget_everything();
                w.fresh_build = None;
            },
            HOp::DeleteCacheDir =>
            {
                w.sys.tick();
                w.sys.user_remove(&format!("{}/cache", ruler_dir()));
                w.fresh_build = None;
            },
            HOp::DeleteHistoryDir =>
            {
                w.sys.tick();
                w.sys.user_remove(&format!("{}/history", ruler_dir()));
                w.forget_everything();
                w.fresh_build = None;
            },
            HOp::DeleteHistoryFile =>
            {
                let files = w.sys.disk().files_under(&format!("{}/history", ruler_dir()));
                if files.len() > 0
                {
                    let f = files[rng.below(files.len())].clone();
                    let name = f.rsplit('/').next().unwrap_or("").to_string();
                    w.sys.tick();
                    w.sys.user_remove(&f);
                    match self.ticket_names.get(&name)
                    {
                        Some(canon) => { let c = canon.clone(); w.forget_identity(&c); },
                        None => w.forget_everything(),
                    }
                }
                w.fresh_build = None;
            },
            HOp::DeleteTable =>
            {
                w.sys.tick();
                w.sys.user_remove(&format!("{}/current_file_states", ruler_dir()));
                // the table is only an optimisation: freshness of the last build is unaffected
            },
            HOp::Build(_) | HOp::BuildAgain | HOp::Clean(_) | HOp::BuildCleanBuild(_) => return false,
        }
        true
    }
}

/* What a history found. */
pub struct HistOutcome
{
    pub violations : Vec<Violation>,
    pub ops : Vec<String>,
}

pub struct Judge<'a>
{
    pub prop : &'a str,
    pub tally : &'a mut Tally,
}

fn displaced_by_ruler(obs : &Obs) -> usize
{
    let prefix = format!("{}/cache/", ruler_dir());
    obs.log.iter().filter(|e| e.op == Op::Rename && e.ok && e.who == Who::Ruler && e.p2.starts_with(&prefix)).count()
}

fn restored_by_ruler(obs : &Obs) -> usize
{
    let prefix = format!("{}/cache/", ruler_dir());
    obs.log.iter().filter(|e| e.op == Op::Rename && e.ok && e.who == Who::Ruler && e.p1.starts_with(&prefix) && !e.p2.starts_with(ruler_dir())).count()
}

/*  Run every monitor on one observation.  Returns all violations found (tagged with their property); the caller
    decides which ones its check reports. */
pub fn judge(run : &mut HistRun, obs : &Obs, judge : &mut Judge) -> Vec<Violation>
{
    let mut all = vec![];
    let prefix_key = mix(run.shape_hash, fnv_str(&run.op_kinds.join(",")));
    let in_scope_rules = obs.eval.in_scope.iter().filter(|x| **x).count();
    let ran = obs.ran.len();
    let restored = restored_by_ruler(obs);
    let displaced = displaced_by_ruler(obs);

    all.extend(obs.online.clone());

    // C05 (serial or random schedule of this history)
    let live = world::m_live(obs);
    if judge.prop == "C05"
    {
        judge.tally.eval(mix(prefix_key, obs.report.schedule_hash()), obs.report.threads >= 3);
    }
    all.extend(live);

    // C01
    let (v, judged) = world::m_final(obs);
    if judge.prop == "C01" && obs.kind == "build" && obs.verdict.is_ok() && !run.world.has_undeclared
    {
        let incremental = run.successful_builds > 0;
        let nontrivial = incremental && ran + restored > 0 && ran < in_scope_rules;
        judge.tally.eval(prefix_key, nontrivial);
        judge.tally.counts.add("targets_compared", judged as u64);
        if incremental { judge.tally.counts.inc("incremental_builds"); }
        if restored > 0 { judge.tally.counts.inc("builds_with_restore"); }
    }
    if !run.world.has_undeclared { all.extend(v); }

    // C02
    let noexec = world::m_noexec(&run.world, obs);
    if judge.prop == "C02" && obs.kind == "build"
    {
        for (kind, count) in noexec.obligations.iter()
        {
            for _ in 0..*count { judge.tally.eval(mix(prefix_key, fnv_str(kind)), kind != "at-most-once"); }
            judge.tally.counts.add(&format!("obligation:{}", kind), *count);
        }
    }
    all.extend(noexec.violations);

    // C04 (serial schedule here; the sched driver covers interleavings)
    let fail = world::m_fail(obs);
    if judge.prop == "C04" && obs.kind == "build"
    {
        let failing = obs.eval.missing_leaves.len() + obs.eval.status.iter().filter(|s| match s { RuleStatus::CommandFails | RuleStatus::NotGenerated(_) => true, _ => false }).count();
        let independent_work = obs.eval.status.iter().enumerate().any(|(i, s)| match s { RuleStatus::Ok(_) => obs.ran.contains_key(&i), _ => false });
        judge.tally.eval(mix(prefix_key, obs.report.schedule_hash()), failing > 0 && independent_work);
        if failing > 0 { judge.tally.counts.inc("builds_with_failures"); }
    }
    let fail_clean = fail.len() == 0;
    // C20's last clause: "each failure is reported once" - the same comparison of the reported errors with the model's
    // failing set, seen from the reporting side
    for v in fail.iter()
    {
        if v.signature.starts_with("error-missing") || v.signature.starts_with("unexpected-error")
        {
            all.push(Violation::new("C20", "failure-not-reported-exactly-once", v.what.clone()));
        }
    }
    all.extend(fail);

    // C07
    let (v, entries) = world::m_cas(&obs.after);
    if judge.prop == "C07"
    {
        let names : Vec<String> = world::cache_files(&obs.after).into_iter().map(|(n, _)| n).collect();
        judge.tally.eval(fnv_str(&names.join(",")), entries > 0);
        judge.tally.counts.add("entries_audited", entries as u64);
    }
    all.extend(v);
    all.extend(world::m_restore_exact(obs));

    // C08
    let (v, contents) = world::m_keep(&obs.before, &obs.after, &run.world.ever_targets);
    if judge.prop == "C08"
    {
        judge.tally.eval(prefix_key, displaced > 0);
        judge.tally.counts.add("contents_tracked", contents as u64);
        judge.tally.counts.add("files_displaced", displaced as u64);
    }
    all.extend(v);

    // C09
    let (v, outside) = world::m_scope(obs);
    if judge.prop == "C09"
    {
        let all_targets : BTreeSet<String> = obs.rules.iter().flat_map(|r| r.targets()).collect();
        let scope = obs.eval.scope_targets(&obs.rules);
        let renames = obs.log.iter().filter(|e| e.op == Op::Rename && e.ok && e.who == Who::Ruler).count();
        judge.tally.eval(prefix_key, outside > 0 && (scope.len() < all_targets.len() || renames > 0));
        judge.tally.counts.add("out_of_scope_files_compared", outside as u64);
        judge.tally.counts.add("ruler_mutations_checked", obs.log.iter().filter(|e| e.who == Who::Ruler && e.op.is_mutation()).count() as u64);
    }
    all.extend(v);

    // C20: judged on every build; "finished" comes from the model, so a banner for a rule whose command must fail is a
    // violation even when the verdict is wrong as well
    let _ = fail_clean;
    {
        let (v, judged) = world::m_status(obs);
        if judge.prop == "C20" && obs.kind == "build"
        {
            let kinds : BTreeSet<&String> = obs.print.banners.iter().map(|(b, _)| b).collect();
            judge.tally.eval(mix(prefix_key, obs.report.schedule_hash()), kinds.len() >= 2 || !obs.verdict.is_ok());
            judge.tally.counts.add("targets_judged", judged as u64);
            for k in kinds { judge.tally.counts.inc(&format!("banner:{}", k)); }
        }
        all.extend(v);
    }

    // C03 hand-off (serial schedule here)
    let (v, _) = world::m_handoff(obs);
    all.extend(v);
    all.extend(world::m_stable(obs).0);

    all
}

/* C10, first half: after a clean, in-scope targets are gone and their bytes are in the cache */
fn judge_clean(obs : &Obs) -> Vec<Violation>
{
    let mut out = vec![];
    if obs.kind != "clean" || obs.eval.structural.is_some() { return out; }
    if !obs.verdict.is_ok()
    {
        out.push(Violation::new("C10", "clean-failed", format!("clean returned {}", obs.verdict.short())));
        return out;
    }
    let cache : BTreeSet<Vec<u8>> = world::cache_files(&obs.after).into_iter().map(|(_, b)| b).collect();
    for t in obs.eval.scope_targets(&obs.rules)
    {
        if obs.after.is_file(&t)
        {
            out.push(Violation::new("C10", "target-survived-clean", format!("target {} still exists after clean", t)));
        }
        if let Some(bytes) = obs.before.read(&t)
        {
            if !cache.contains(bytes)
            {
                out.push(Violation::new("C10", "cleaned-content-not-cached", format!("the content of {} is not in the cache after clean", t)));
            }
        }
    }
    out
}

pub fn run_history(rng : &mut Rng, run : &mut HistRun, prop : &str, tally : &mut Tally) -> HistOutcome
{
    let mut found : Vec<Violation> = vec![];
    let max_ops = run.cfg.max_ops;
    let mut steps = 0;
    // a history ends at the first violation of the property this check decides; alarms of other properties are
    // counted but do not hide what happens next from this property's monitor
    while steps < max_ops && !found.iter().any(|v| v.property == prop || v.property == "INCONCLUSIVE")
    {
        steps += 1;
        let op = run.choose_op(rng);
        run.op_kinds.push(kind_of(&op));
        run.world.note_op(format!("{:?}", op));
        if run.apply_user_op(rng, &op)
        {
            run.pending_clean = None;
            continue;
        }

        let invocations : Vec<(&str, Option<String>)> = match &op
        {
            HOp::Build(g) => vec![("build", g.clone())],
            HOp::BuildAgain => match &run.last_build_goal { Some(g) => vec![("build", g.clone())], None => vec![("build", None)] },
            HOp::Clean(g) => vec![("clean", g.clone())],
            HOp::BuildCleanBuild(g) => vec![("build", g.clone()), ("clean", g.clone()), ("build", g.clone())],
            _ => vec![],
        };

        for (kind, goal) in invocations
        {
            let choice = run.sched();
            let broken = run.world.env_broken();
            let obs = if kind == "build" { run.world.invoke_build(goal.clone(), &choice) } else { run.world.invoke_clean(goal.clone(), &choice) };
            if obs.report.step_exceeded && prop == "C05"
            {
                // bounded progress: an invocation on these graphs takes a few hundred to a few thousand scheduler steps (every
                // System call and channel operation is one step, retry loops are bounded by 100 attempts); not finishing
                // within 400 000 steps under a fair scheduler is a loop that does not end
                found.push(Violation::new("C05", "no-termination-within-step-bound", format!("{} did not finish within {} scheduler steps", kind, obs.report.steps)));
                break;
            }
            if obs.report.step_exceeded || obs.report.replay_diverged
            {
                found.push(Violation::new("INCONCLUSIVE", "step-bound", "scheduler step bound exceeded".to_string()));
                break;
            }
            let mut j = Judge { prop : prop, tally : tally };
            let mut v = judge(run, &obs, &mut j);

            // C10
            if kind == "clean"
            {
                v.extend(judge_clean(&obs));
                // remember what was cleaned if the scope was verified up to date by the immediately preceding successful build
                let scope = obs.eval.scope_targets(&obs.rules);
                let fresh = match &run.world.fresh_build { Some((_, s)) => scope.is_subset(s), None => false };
                if fresh && obs.verdict.is_ok()
                {
                    let mut cleaned = BTreeMap::new();
                    for t in scope.iter()
                    {
                        if let Some(i) = obs.before.inode(t) { cleaned.insert(t.clone(), (i.data.clone(), i.exec)); }
                    }
                    run.pending_clean = Some((goal.clone(), cleaned));
                }
                else
                {
                    run.pending_clean = None;
                }
                if prop == "C10"
                {
                    tally.counts.inc("cleans_judged");
                }
            }
            else
            {
                if let Some((clean_goal, cleaned)) = run.pending_clean.take()
                {
                    if clean_goal == goal
                    {
                        let distinct : BTreeSet<&Vec<u8>> = cleaned.values().map(|x| &x.0).collect();
                        let pairwise_distinct = distinct.len() == cleaned.len();
                        if prop == "C10"
                        {
                            tally.eval(mix(run.shape_hash, fnv_str(&run.op_kinds.join(","))), cleaned.len() >= 2);
                            tally.counts.add("targets_restored_checked", cleaned.len() as u64);
                            if !pairwise_distinct { tally.counts.inc("pairs_with_identical_contents"); }
                        }
                        if !obs.verdict.is_ok()
                        {
                            v.push(Violation::new("C10", "build-after-clean-failed", format!("the build after clean returned {}", obs.verdict.short())));
                        }
                        else
                        {
                            let model_targets = obs.eval.expected_targets();
                            for (t, (bytes, exec)) in cleaned.iter()
                            {
                                match obs.after.inode(t)
                                {
                                    Some(i) if i.data == *bytes && i.exec == *exec => {},
                                    // the permission is judged only if it was up to date before the clean, i.e. it was what the
                                    // rule's command produces; a target that carried another permission (set by hand, or left by an
                                    // earlier restore) was not up to date in that respect and the property promises nothing for it
                                    Some(i) if i.data == *bytes && model_targets.get(t).map(|m| m.1) != Some(*exec) =>
                                    {
                                        if prop == "C10" { tally.counts.inc("permission_not_judged_because_not_up_to_date_before_clean"); }
                                    },
                                    Some(i) if i.data == *bytes && cleaned.iter().any(|(t2, (b2, x2))| t2 != t && b2 == bytes && *x2 == i.exec) =>
                                        v.push(Violation::new("C10", "exec-bit-taken-from-byte-identical-twin",
                                            format!("after clean+build target {} has exec={} instead of {}: another cleaned target held the same bytes {:?} with the other permission, and one cache entry served both", t, i.exec, exec, crate::verif::util::show_bytes(bytes)))),
                                    Some(i) => v.push(Violation::new("C10", "target-not-restored-identically",
                                        format!("after clean+build target {} is ({:?}, exec={}) instead of ({:?}, exec={})", t,
                                            crate::verif::util::show_bytes(&i.data), i.exec, crate::verif::util::show_bytes(bytes), exec))),
                                    None => v.push(Violation::new("C10", "target-not-restored", format!("after clean+build target {} is missing", t))),
                                }
                            }
                            if pairwise_distinct && obs.ran.len() > 0
                            {
                                v.push(Violation::new("C10", "build-after-clean-ran-command",
                                    format!("the build after clean ran commands of rules {:?} although all cleaned contents were distinct", obs.ran.keys().collect::<Vec<_>>())));
                            }
                        }
                    }
                }
            }

            if tally.wants_sample() && obs.kind == "build" && run.successful_builds > 0 && obs.ran.len() > 0
            {
                tally.sample(J::obj(vec![
                    ("rules_file", J::Str(run.world.rules_text())),
                    ("history", J::strs(&run.world.ops)),
                    ("last_invocation", world::obs_summary(&obs)),
                ]));
            }

            if broken
            {
                // a target directory is missing: the model does not describe that state; what must hold regardless is kept
                v.retain(|x| match x.property.as_str() { "C05" | "C07" | "C08" | "C09" | "INCONCLUSIVE" => true, _ => false });
                tally.counts.inc("invocations_with_a_target_directory_missing");
            }
            run.world.absorb(&obs);
            if kind == "build"
            {
                run.last_build_goal = Some(goal.clone());
                if obs.verdict.is_ok() { run.successful_builds += 1; }
            }
            let decisive = v.iter().any(|x| x.property == prop);
            found.extend(v);
            if decisive { break; }
        }
    }
    HistOutcome { violations : found, ops : run.world.ops.clone() }
}

pub fn detail(run : &HistRun, outcome : &HistOutcome) -> J
{
    J::obj(vec![
        ("graph_shape", J::s(&run.graph_shape)),
        ("rules_file", J::Str(run.world.rules_text())),
        ("history", J::strs(&outcome.ops)),
        ("schedule", J::s(if run.sched_random { "random" } else { "serial" })),
    ])
}

/* The driver proper. */
pub fn drive(prop : &str)
{
    let params = Params::from_env("hist");
    let mut tally = Tally::new();
    let mut timed_out = false;
    for case in params.case_list()
    {
        if params.out_of_time() { timed_out = true; break; }
        let mut rng = params.case_rng(case);
        let cfg = HistCfg::for_property(prop, params.thorough());
        let graph = gen::any_graph(&mut rng, cfg.max_rules);
        let mut run = HistRun::new(&mut rng, cfg, graph);
        let outcome = run_history(&mut rng, &mut run, prop, &mut tally);
        tally.cases_run += 1;
        tally.counts.inc(&format!("shape:{}", run.graph_shape));
        for v in outcome.violations.iter()
        {
            if v.property == "INCONCLUSIVE"
            {
                emit_inconclusive(&params, case, &v.what);
            }
            else if v.property == prop
            {
                emit_violation(&params, &mut tally, case, v, detail(&run, &outcome));
            }
            else
            {
                tally.counts.inc(&format!("other_property_alarm:{}:{}", v.property, v.signature));
            }
        }
    }
    tally.emit_summary(&params, timed_out);
}

#[test] #[ignore] fn hist_c01() { drive("C01"); }
#[test] #[ignore] fn hist_c02() { drive("C02"); }
#[test] #[ignore] fn hist_c04() { drive("C04"); }
#[test] #[ignore] fn hist_c05() { drive("C05"); }
#[test] #[ignore] fn hist_c07() { drive("C07"); }
#[test] #[ignore] fn hist_c08() { drive("C08"); }
#[test] #[ignore] fn hist_c09() { drive("C09"); }
#[test] #[ignore] fn hist_c10() { drive("C10"); }
#[test] #[ignore] fn hist_c20() { drive("C20"); }
