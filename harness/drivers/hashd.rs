// C15: content hashes are true SHA-256 of the bytes and the 43-character text form is a bijection.
// In-process oracle: the harness's own SHA-256/base-62 (harness/sha.rs).  The same cases are also written out
// (raw bytes in hex + ruler's answer) and re-checked by pytools/hash_oracle.py with Python's hashlib, so a wrong
// harness hasher cannot hide a wrong ruler hasher or raise a false alarm unnoticed.

use std::collections::BTreeSet;

use crate::system::System;
use crate::ticket::{Ticket, TicketFactory};
use crate::verif::drivers::common::{emit_violation, Params, Tally};
use crate::verif::sha;
use crate::verif::util::{emit, fnv64, fnv_str, mix, Rng, J};
use crate::verif::vsys::{Clock, VSys};
use crate::verif::world::Violation;

fn random_bytes(rng : &mut Rng, len : usize) -> Vec<u8>
{
    let mut v = Vec::with_capacity(len);
    let mode = rng.below(4);
    for i in 0..len
    {
        v.push(match mode { 0 => rng.next_u64() as u8, 1 => 0u8, 2 => (i % 251) as u8, _ => b"ab\n:\t"[rng.below(5)] });
    }
    v
}

struct Ctx<'a>
{
    params : &'a Params,
    tally : &'a mut Tally,
    reported : BTreeSet<String>,
}

impl<'a> Ctx<'a>
{
    fn violation(&mut self, case : u64, signature : &str, what : String, detail : J)
    {
        if self.reported.len() < 20 && self.reported.insert(signature.to_string())
        {
            emit_violation(self.params, self.tally, case, &Violation::new("C15", signature, what), detail);
        }
        else { self.tally.violations += 1; }
    }
}

fn hash_file_case(ctx : &mut Ctx, rng : &mut Rng, case : u64, len : usize, export : bool)
{
    let bytes = random_bytes(rng, len);
    let truth = sha::name_of(&bytes);
    let paths = ["f", "dir/f", "some/deep/path/x.bin"];
    let path = paths[rng.below(paths.len())];
    let sys = VSys::new(Clock::Distinct, rng.next_u64());
    sys.user_write(path, &bytes, rng.chance(1, 3));
    let mut answers = BTreeSet::new();
    for round in 0..3
    {
        {
            let mut fs = sys.lock();
            fs.short_reads = round > 0;
            fs.logging = false;
            if round == 2 { fs.disk.now += 5_000_000; }
        }
        if round == 2 { sys.user_write(path, &bytes, false); } // same bytes, new age
        match TicketFactory::from_file(&sys, path)
        {
            Ok(mut factory) =>
            {
                let ticket = factory.result();
                let text = ticket.human_readable();
                answers.insert(text.clone());
                // the text form decodes back to the same hash
                match Ticket::from_human_readable(&text)
                {
                    Ok(back) => if back != ticket { ctx.violation(case, "text-form-does-not-decode-back", format!("hash text {} decodes to a different hash", text), J::Null); },
                    Err(e) => ctx.violation(case, "own-text-form-rejected", format!("hash text {} produced by ruler is rejected by its own decoder: {:?}", text, e), J::Null),
                }
            },
            Err(e) => ctx.violation(case, "hashing-failed", format!("hashing a {}-byte file failed: {:?}", len, e), J::Null),
        }
    }
    ctx.tally.eval(mix(fnv64(&bytes), len as u64), true);
    ctx.tally.counts.inc("file_hash_cases");
    if answers.len() > 1
    {
        ctx.violation(case, "hash-depends-on-read-chunking-or-age", format!("the same {} bytes hashed to {:?} under different read chunkings / ages / paths", len, answers), J::obj(vec![("bytes_hex", J::Str(sha::hex(&bytes)))]));
    }
    else if answers.iter().next() != Some(&truth)
    {
        ctx.violation(case, "hash-is-not-sha256", format!("a {}-byte file hashed to {:?}; SHA-256 in the 43-character form is {}", len, answers, truth), J::obj(vec![("bytes_hex", J::Str(sha::hex(&bytes)))]));
    }
    if export
    {
        emit(&J::obj(vec![("type", J::s("hashcase")), ("bytes_hex", J::Str(sha::hex(&bytes))), ("ruler_text", J::Str(answers.iter().next().cloned().unwrap_or("".to_string())))]));
    }
}

fn increment62(text : &str) -> Option<String>
{
    const ALPHABET : &[u8; 62] = b"0123456789abcdefghijklmnopqrstuvwxyzABCDEFGHIJKLMNOPQRSTUVWXYZ";
    let mut digits : Vec<usize> = text.bytes().map(|b| ALPHABET.iter().position(|a| *a == b).unwrap()).collect();
    for d in digits.iter_mut()
    {
        if *d < 61 { *d += 1; return Some(String::from_utf8(digits.iter().map(|x| ALPHABET[*x]).collect()).unwrap()); }
        *d = 0;
    }
    None
}

fn codec_value_case(ctx : &mut Ctx, case : u64, value : [u8; 32], export : bool)
{
    let text = sha::base62(&value);
    ctx.tally.eval(fnv64(&value), true);
    ctx.tally.counts.inc("value_round_trips");
    match Ticket::from_human_readable(&text)
    {
        Ok(t) =>
        {
            let back = t.human_readable();
            if back != text
            {
                ctx.violation(case, "value-does-not-round-trip", format!("256-bit value {} written as {} decodes and re-encodes to {}", sha::hex(&value), text, back), J::Null);
            }
        },
        Err(e) => ctx.violation(case, "valid-encoding-rejected", format!("{} is the encoding of {} but is rejected: {:?}", text, sha::hex(&value), e), J::Null),
    }
    if export
    {
        emit(&J::obj(vec![("type", J::s("codeccase")), ("value_hex", J::Str(sha::hex(&value))), ("text", J::Str(text))]));
    }
}

fn codec_string_case(ctx : &mut Ctx, case : u64, text : &str, class : &str)
{
    ctx.tally.eval(fnv_str(text), true);
    ctx.tally.counts.inc(&format!("string:{}", class));
    let reference = sha::unbase62(text);
    let real = std::panic::catch_unwind(|| Ticket::from_human_readable(text));
    match (real, reference)
    {
        (Err(_), _) => ctx.violation(case, "decoder-panicked", format!("decoding {:?} panicked", text), J::Null),
        (Ok(Ok(t)), Some(_v)) =>
        {
            if t.human_readable() != text
            {
                ctx.violation(case, "string-does-not-round-trip", format!("{:?} decodes but re-encodes to {:?}", text, t.human_readable()), J::Null);
            }
        },
        (Ok(Ok(t)), None) => ctx.violation(case, "invalid-string-accepted", format!("{:?} ({}) is not the encoding of any 256-bit value but was accepted as {}", text, class, t.human_readable()), J::Null),
        (Ok(Err(e)), Some(v)) => ctx.violation(case, "valid-encoding-rejected", format!("{:?} encodes {} but was rejected: {:?}", text, sha::hex(&v), e), J::Null),
        (Ok(Err(_)), None) => {},
    }
}

fn directory_case(ctx : &mut Ctx, rng : &mut Rng, case : u64)
{
    let sys = VSys::new(Clock::Distinct, rng.next_u64());
    { let mut fs = sys.lock(); fs.logging = false; }
    let mut files : Vec<String> = vec![];
    let n = rng.range(1, 8);
    for i in 0..n
    {
        let dir = ["tree", "tree/a", "tree/a/b", "tree/c"][rng.below(4)];
        let p = format!("{}/f{}", dir, i);
        let len = rng.below(300);
        sys.user_write(&p, &random_bytes(rng, len), false);
        files.push(p);
    }
    // sub-directories with nothing beneath them: their names are contained names too
    let empties = ["tree/cache", "tree/a/empty", "tree/zz"];
    let n_empty = rng.below(3);
    for e in empties.iter().take(n_empty) { sys.user_mkdirs(e); }
    let hash = |sys : &VSys| -> Option<String> { TicketFactory::from_directory(sys, "tree").ok().map(|mut f| f.result().human_readable()) };
    let h0 = match hash(&sys) { Some(h) => h, None => { ctx.violation(case, "directory-hash-failed", "hashing a directory tree failed".to_string(), J::Null); return; } };
    ctx.tally.eval(mix(fnv_str(&h0), case), true);
    ctx.tally.counts.inc("directory_cases");
    if hash(&sys).as_ref() != Some(&h0)
    {
        ctx.violation(case, "directory-hash-unstable", "hashing the same tree twice gave different hashes".to_string(), J::Null);
    }
    let victim = files[rng.below(files.len())].clone();
    let original = sys.read_file(&victim).unwrap();
    let (what, undo) : (String, Box<dyn Fn(&VSys)>) = match if n_empty > 0 { rng.below(7) } else { rng.below(4) }
    {
        4 =>
        {
            // rename an empty sub-directory so that it keeps its rank among its siblings
            let old = empties[rng.below(n_empty)].to_string();
            let renamed = format!("{}x", old);
            sys.user_remove(&old);
            sys.user_mkdirs(&renamed);
            let (o, r) = (old.clone(), renamed.clone());
            (format!("empty directory {} renamed to {}", old, renamed), Box::new(move |s : &VSys| { s.user_remove(&r); s.user_mkdirs(&o); }))
        },
        5 =>
        {
            sys.user_mkdirs("tree/new_empty_dir");
            ("empty directory tree/new_empty_dir added".to_string(), Box::new(move |s : &VSys| s.user_remove("tree/new_empty_dir")))
        },
        6 =>
        {
            let old = empties[rng.below(n_empty)].to_string();
            sys.user_remove(&old);
            let o = old.clone();
            (format!("empty directory {} removed", old), Box::new(move |s : &VSys| s.user_mkdirs(&o)))
        },
        0 =>
        {
            let mut changed = original.clone();
            if changed.len() == 0 { changed.push(1); } else { let i = rng.below(changed.len()); changed[i] ^= 1 << rng.below(8); }
            sys.user_write(&victim, &changed, false);
            let (v, o) = (victim.clone(), original.clone());
            (format!("content of {} changed", victim), Box::new(move |s : &VSys| s.user_write(&v, &o, false)))
        },
        1 =>
        {
            let renamed = format!("{}_renamed", victim);
            sys.user_remove(&victim);
            sys.user_write(&renamed, &original, false);
            let (v, o, r) = (victim.clone(), original.clone(), renamed.clone());
            (format!("{} renamed", victim), Box::new(move |s : &VSys| { s.user_remove(&r); s.user_write(&v, &o, false); }))
        },
        2 =>
        {
            let added = format!("{}/added", crate::verif::vsys::parent_of(&victim));
            sys.user_write(&added, b"new", false);
            let a = added.clone();
            (format!("{} added", added), Box::new(move |s : &VSys| s.user_remove(&a)))
        },
        _ =>
        {
            sys.user_remove(&victim);
            let (v, o) = (victim.clone(), original.clone());
            (format!("{} removed", victim), Box::new(move |s : &VSys| s.user_write(&v, &o, false)))
        },
    };
    let h1 = hash(&sys);
    if h1.as_ref() == Some(&h0)
    {
        ctx.violation(case, "directory-hash-blind-to-change", format!("the directory hash did not change although {}", what), J::Null);
    }
    undo(&sys);
    if hash(&sys).as_ref() != Some(&h0)
    {
        ctx.violation(case, "directory-hash-not-a-function-of-content", format!("after undoing '{}' the directory hash differs from the original", what), J::Null);
    }
}

pub fn drive()
{
    let params = Params::from_env("hash");
    let mut tally = Tally::new();
    crate::verif::shim::install_panic_hook();
    crate::verif::shim::set_quiet(true);
    let mut ctx = Ctx { params : &params, tally : &mut tally, reported : BTreeSet::new() };
    let mut rng = params.case_rng(0);
    let shards = params.shards.max(1);

    // VERIF_NOHASH=1 (used under Miri, which cannot execute the SHA-256 dependency): codec cases only
    let nohash = crate::verif::util::env_u64("VERIF_NOHASH", 0) == 1;
    // every length 0..=1100 (around the 256-byte read buffer), split across shards
    let mut len = params.shard as usize;
    while len <= 1100 && !nohash
    {
        hash_file_case(&mut ctx, &mut rng, len as u64, len, true);
        len += shards as usize;
    }
    // boundary lengths again with other contents, and random larger files
    for k in 0..params.cases
    {
        if params.out_of_time() || nohash { break; }
        let len = match k % 4 { 0 => [255usize, 256, 257, 511, 512, 513, 1023, 1024, 1025, 55, 56, 63, 64, 65, 119, 120][rng.below(16)], 1 => rng.below(3000), 2 => rng.below(70_000), _ => rng.below(if params.thorough() { 1_100_000 } else { 300_000 }) };
        hash_file_case(&mut ctx, &mut rng, 10_000 + k, len, k % 8 == 0);
        ctx.tally.cases_run += 1;
    }

    // 256-bit values: edges and random
    let mut edges : Vec<[u8; 32]> = vec![[0u8; 32], [0xffu8; 32]];
    for i in 0..32 { let mut v = [0u8; 32]; v[i] = 1; edges.push(v); let mut w = [0xffu8; 32]; w[i] = 0xfe; edges.push(w); let mut z = [0u8; 32]; z[i] = 0xff; edges.push(z); }
    // 62^k and 62^k +- 1 as little-endian byte strings
    let mut pow : Vec<u32> = vec![1];
    for _k in 1..43
    {
        let mut carry = 0u32;
        for limb in pow.iter_mut() { let cur = *limb * 62 + carry; *limb = cur & 0xff; carry = cur >> 8; }
        while carry > 0 { pow.push(carry & 0xff); carry >>= 8; }
        if pow.len() <= 32
        {
            let mut v = [0u8; 32];
            for (i, b) in pow.iter().enumerate() { v[i] = *b as u8; }
            edges.push(v);
            let mut minus = v; for b in minus.iter_mut() { if *b > 0 { *b -= 1; break; } else { *b = 0xff; } } edges.push(minus);
            let mut plus = v; for b in plus.iter_mut() { if *b < 0xff { *b += 1; break; } else { *b = 0; } } edges.push(plus);
        }
    }
    if params.shard == 0 { for (i, v) in edges.iter().enumerate() { codec_value_case(&mut ctx, 20_000 + i as u64, *v, true); } }
    for k in 0..(params.cases * 8)
    {
        let mut v = [0u8; 32];
        for b in v.iter_mut() { *b = rng.next_u64() as u8; }
        if rng.chance(1, 4) { for b in v[rng.below(32)..].iter_mut() { *b = 0; } }   // leading-zero digits
        codec_value_case(&mut ctx, 30_000 + k, v, k % 64 == 0);
    }

    // strings: wrong lengths, foreign characters, overflow
    let alphabet : Vec<char> = "0123456789abcdefghijklmnopqrstuvwxyzABCDEFGHIJKLMNOPQRSTUVWXYZ".chars().collect();
    let foreign : Vec<char> = "!\"#$%&'()*+,-./:;<=>?@[\\]^_`{|}~ \t\né日\u{0}\u{141}\u{131}\u{161}\u{3431}".chars().collect();
    if params.shard == 0
    {
        for len in 0..=60usize
        {
            for round in 0..4
            {
                let s : String = (0..len).map(|_| if round == 3 && rng.chance(1, 5) { foreign[rng.below(foreign.len())] } else { alphabet[rng.below(62)] }).collect();
                codec_string_case(&mut ctx, 40_000 + len as u64, &s, if len == 43 { "length-43" } else { "wrong-length" });
            }
        }
        // the smallest strings above 2^256 - 1 and the largest string
        let mut s = sha::base62(&[0xffu8; 32]);
        for _ in 0..200
        {
            s = match increment62(&s) { Some(n) => n, None => break };
            codec_string_case(&mut ctx, 41_000, &s, "overflow-just-above-max");
        }
        codec_string_case(&mut ctx, 41_001, &"Z".repeat(43), "overflow-largest");
    }
    for k in 0..(params.cases * 4)
    {
        let mut chars : Vec<char> = (0..43).map(|_| alphabet[rng.below(62)]).collect();
        let class = match k % 4
        {
            0 => { let i = rng.below(43); chars[i] = foreign[rng.below(foreign.len())]; "one-foreign-character" },
            1 => { for c in chars[38..].iter_mut() { *c = alphabet[55 + rng.below(7)]; } "large-value" },
            2 => { chars[42] = alphabet[rng.below(62)]; "random-43" },
            _ =>
            {
                // one multi-byte character, the rest ASCII, 43 BYTES in total; the character is drawn so that its code
                // point often ends in the byte of an ASCII letter or digit (U+0141, U+3431, U+1F431 ...)
                let low = alphabet[rng.below(62)] as u32;
                let candidates = [0x00e9u32, 0x0100 + low, 0x0400 + low, 0x3400 + low, 0x1f400 + low, 0x00c0 + (low & 0x3f)];
                let c = std::char::from_u32(candidates[rng.below(candidates.len())]).unwrap_or('é');
                let keep = 43 - c.len_utf8();
                chars.truncate(keep);
                let i = rng.below(keep + 1);
                chars.insert(i, c);
                "multibyte-43-bytes"
            },
        };
        let s : String = chars.into_iter().collect();
        codec_string_case(&mut ctx, 50_000 + k, &s, class);
    }

    // directory trees
    for k in 0..(params.cases / 2).max(20)
    {
        if nohash { break; }
        directory_case(&mut ctx, &mut rng, 60_000 + k);
    }

    ctx.tally.sample(J::obj(vec![("kinds", J::s("file bytes of every length 0..1100 under short-read handles; 256-bit edge/random values; strings of length 0..60, foreign characters, overflow; directory trees with single-point changes")),
        ("example_value", J::Str(sha::base62(&[0xffu8; 32])))]));
    tally.emit_summary(&params, false);
}

#[test] #[ignore] fn hash_c15() { drive(); }
