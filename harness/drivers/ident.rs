// C13: rule identity.  Two rules share an identity exactly when they have the same target set, the same source
// set and the same command lines in the same order.  Pairs are generated as near-misses of each other; each pair is
// judged on the in-memory rules and again after rendering both to text and parsing them with the real parser.

use std::collections::BTreeSet;

use crate::rule::{parse, Rule};
use crate::verif::drivers::common::{emit_violation, Params, Tally};
use crate::verif::model::bundle_lines;
use crate::verif::util::{fnv_str, mix, Rng, J};
use crate::verif::world::Violation;

const PATHS : &[&str] = &[
    "a", "b", "c", "ab", "bc", "abc", "a b", "a:b", ":a", "a:", "x/", "d/e", "d/:", "d/e f", "d/e/f", "-c", "gcc", "é", "a.b", "a/z", " lead", "trail ",
    "a\r", "d", "e", "f", "o.o", "main.c", "src/main.c", "src/:", "out/main", ";", "--", "0", "Z",
];

const COMMANDS : &[&str] = &[
    "gcc", "-c", "gcc -c", "a", "b", "a b", "-o", "out/main", "src/main.c", ";", "\tx", " ", "a:", ":a", "::", "é", "cat", "a\tb", "x y z", "x", "y", "z", "y z",
];

fn pick_set(rng : &mut Rng, pool : &[&str], lo : usize, hi : usize) -> Vec<String>
{
    let n = rng.range(lo, hi);
    let mut out : Vec<String> = vec![];
    for _ in 0..n
    {
        let c = pool[rng.below(pool.len())].to_string();
        // a path and a directory prefix of it cannot both be leaves of one section ("d" and "d/e")
        let clash = out.iter().any(|o| o == &c || o.starts_with(&format!("{}/", c)) || c.starts_with(&format!("{}/", o)));
        if !clash { out.push(c); }
    }
    if out.len() == 0 { out.push(pool[0].to_string()); }
    out
}

fn base_rule(rng : &mut Rng) -> Rule
{
    let targets = pick_set(rng, PATHS, 1, 4);
    let sources = pick_set(rng, PATHS, 1, 4);
    let n = rng.range(1, 4);
    let command = (0..n).map(|_| COMMANDS[rng.below(COMMANDS.len())].to_string()).collect();
    Rule::new(targets, sources, command)
}

fn canon(r : &Rule) -> (BTreeSet<String>, BTreeSet<String>, Vec<String>)
{
    (r.targets.iter().cloned().collect(), r.sources.iter().cloned().collect(), r.command.clone())
}

fn mutate(rng : &mut Rng, a : &Rule) -> (Rule, &'static str)
{
    let mut b = a.clone();
    let kind = match rng.below(18)
    {
        16 | 17 =>
        {
            // the command's characters cut into lines differently: [ab, c] vs [a, bc] vs [abc] - written back to back the
            // lines spell the same string, so only the line breaks tell the commands apart
            let joined : String = b.command.concat();
            let chars : Vec<char> = joined.chars().collect();
            let mut done = false;
            if chars.len() >= 2
            {
                for _ in 0..20
                {
                    let parts = rng.range(1, chars.len().min(b.command.len() + 1));
                    let mut cuts : Vec<usize> = (1..chars.len()).collect();
                    rng.shuffle(&mut cuts);
                    cuts.truncate(parts - 1);
                    cuts.sort();
                    let mut pieces : Vec<String> = vec![];
                    let mut start = 0;
                    for c in cuts.iter().chain(std::iter::once(&chars.len()))
                    {
                        pieces.push(chars[start..*c].iter().collect());
                        start = *c;
                    }
                    if pieces != b.command && pieces.iter().all(|p| p.len() > 0 && p != ":")
                    {
                        b.command = pieces;
                        done = true;
                        break;
                    }
                }
            }
            if done { "command-characters-cut-differently" } else { "none" }
        },
        14 | 15 =>
        {
            // the same characters cut differently: [a, bc] vs [ab, c] - the entries written back to back spell the same string
            let list = if rng.chance(1, 2) { &mut b.targets } else { &mut b.sources };
            let mut sorted = list.clone();
            sorted.sort();
            let joined : String = sorted.concat();
            let chars : Vec<char> = joined.chars().collect();
            let parts = sorted.len();
            let mut done = false;
            if parts >= 2 && chars.len() > parts
            {
                for _ in 0..20
                {
                    let mut cuts : Vec<usize> = (1..chars.len()).collect();
                    rng.shuffle(&mut cuts);
                    cuts.truncate(parts - 1);
                    cuts.sort();
                    let mut pieces : Vec<String> = vec![];
                    let mut start = 0;
                    for c in cuts.iter().chain(std::iter::once(&chars.len()))
                    {
                        pieces.push(chars[start..*c].iter().collect());
                        start = *c;
                    }
                    let mut check = pieces.clone();
                    check.sort();
                    if check == pieces && pieces != sorted && pieces.iter().all(|p| p.len() > 0 && !p.starts_with('/') && !p.ends_with('/') && !p.contains("//"))
                    {
                        *list = pieces;
                        done = true;
                        break;
                    }
                }
            }
            if done { "same-characters-cut-differently" } else { "none" }
        },
        0 => { rng.shuffle(&mut b.targets); rng.shuffle(&mut b.sources); "permute-lists" },
        1 => { if b.targets.len() > 1 { let t = b.targets.pop().unwrap(); b.sources.push(t); } "move-target-to-sources" },
        2 => { if b.sources.len() > 1 { let s = b.sources.pop().unwrap(); b.command.insert(0, s); } "move-source-to-command" },
        3 => { if b.command.len() > 1 { let c = b.command.remove(0); b.sources.push(c); } "move-command-to-sources" },
        4 => { if b.sources.len() > 1 { let s = b.sources.remove(0); b.targets.push(s); } "move-source-to-targets" },
        5 =>
        {
            // split a command line at a space / merge two lines with a space
            if let Some(i) = b.command.iter().position(|c| c.trim().contains(' ') && !c.starts_with(' ') && !c.ends_with(' '))
            {
                let line = b.command.remove(i);
                let cut = line.find(' ').unwrap();
                b.command.insert(i, line[cut+1..].to_string());
                b.command.insert(i, line[..cut].to_string());
                "split-command-line"
            }
            else if b.command.len() > 1
            {
                let x = b.command.remove(0);
                b.command[0] = format!("{} {}", x, b.command[0]);
                "merge-command-lines"
            }
            else { "none" }
        },
        6 => { if b.command.len() > 1 { b.command.swap(0, 1); } "swap-command-lines" },
        7 => { b.targets.push("extra_t".to_string()); "add-target" },
        8 => { b.sources.push("extra_s".to_string()); "add-source" },
        9 => { if b.sources.len() > 1 { b.sources.remove(0); } "remove-source" },
        10 => { let i = rng.below(b.targets.len()); b.targets[i] = format!("{}_", b.targets[i]); "rename-target" },
        11 => { let i = rng.below(b.command.len()); b.command[i] = format!("{}x", b.command[i]); "edit-command" },
        12 => { b.command.push(b.command[0].clone()); "duplicate-command-line" },
        _ => { b.command.sort(); "sort-command-lines" },
    };
    (b, kind)
}

/* Render a rule as text the documented way; paths with '/' are bundled at random. */
fn render(rng : &mut Rng, r : &Rule) -> Option<String>
{
    fn section(rng : &mut Rng, paths : &Vec<String>) -> Option<Vec<String>>
    {
        // bundle only lists whose components are all non-empty and not tab-leading
        let bundle_ok = paths.iter().all(|p| p.split('/').all(|c| c.len() > 0 && !c.starts_with('\t')));
        let mut lines = if bundle_ok && rng.chance(1, 2) { bundle_lines(paths) } else { let mut l = paths.clone(); rng.shuffle(&mut l); l };
        // lines that the format cannot express at the top level
        for l in lines.iter() { if l == ":" || l == "" || l.chars().all(|c| c == '\t') || l.contains('\n') { return None; } }
        if !bundle_ok { for l in lines.iter() { if l.starts_with('\t') { return None; } } }
        let _ = &mut lines;
        Some(lines)
    }
    let t = section(rng, &r.targets)?;
    let s = section(rng, &r.sources)?;
    for c in r.command.iter() { if c == ":" || c == "" || c.contains('\n') { return None; } }
    Some(format!("{}\n:\n{}\n:\n{}\n:\n", t.join("\n"), s.join("\n"), r.command.join("\n")))
}

/*  A small universe, exhaustively: every rule whose targets and sources are 1-2 strings and whose command is 1-2
    lines over eight strings chosen to confuse a serialisation (':' in front, behind, doubled; a string that is two
    others written back to back; a leading space).  Identities must be pairwise different across the whole universe -
    not just between a rule and its near-misses. */
const UNIVERSE : &[&str] = &["a", "b", "ab", ":a", ":b", "a:", "::a", " a"];

fn universe(params : &Params, tally : &mut Tally)
{
    let n = UNIVERSE.len();
    let mut sets : Vec<Vec<String>> = vec![];
    for i in 0..n
    {
        sets.push(vec![UNIVERSE[i].to_string()]);
        for j in (i + 1)..n { sets.push(vec![UNIVERSE[i].to_string(), UNIVERSE[j].to_string()]); }
    }
    let mut commands : Vec<Vec<String>> = vec![];
    for i in 0..n
    {
        commands.push(vec![UNIVERSE[i].to_string()]);
        for j in 0..n { commands.push(vec![UNIVERSE[i].to_string(), UNIVERSE[j].to_string()]); }
    }
    let mut seen : std::collections::HashMap<String, (usize, usize, usize)> = std::collections::HashMap::new();
    let mut reported = 0;
    for (ti, t) in sets.iter().enumerate()
    {
        for (si, s) in sets.iter().enumerate()
        {
            for (ci, c) in commands.iter().enumerate()
            {
                let identity = Rule::new(t.clone(), s.clone(), c.clone()).get_ticket().human_readable();
                tally.cases_run += 1;
                tally.eval(mix(ti as u64, mix(si as u64, ci as u64 + 7)), true);
                if let Some((t2, s2, c2)) = seen.insert(identity, (ti, si, ci))
                {
                    tally.counts.inc("universe_collisions");
                    if reported < 5
                    {
                        reported += 1;
                        let v = Violation::new("C13", "different-rules-same-identity",
                            format!("rules (targets {:?}, sources {:?}, command {:?}) and (targets {:?}, sources {:?}, command {:?}) have the same identity",
                                t, s, c, sets[t2], sets[s2], commands[c2]));
                        emit_violation(params, tally, (ti * 1000 + si) as u64, &v, J::obj(vec![("pair_kind", J::s("universe"))]));
                    }
                    else { tally.violations += 1; }
                }
            }
        }
    }
    tally.counts.add("universe_rules", (sets.len() * sets.len() * commands.len()) as u64);
}

pub fn drive()
{
    if crate::verif::util::env_str("VERIF_STAGE", "") == "universe"
    {
        let params = Params::from_env("ident");
        let mut tally = Tally::new();
        universe(&params, &mut tally);
        tally.emit_summary(&params, false);
        return;
    }
    let params = Params::from_env("ident");
    let mut tally = Tally::new();
    let mut timed_out = false;
    let mut reported = BTreeSet::new();
    for case in params.case_list()
    {
        if case % 256 == 0 && params.out_of_time() { timed_out = true; break; }
        let mut rng = params.case_rng(case);
        let a = base_rule(&mut rng);
        let (b, kind) = if rng.chance(1, 12) { (base_rule(&mut rng), "independent") } else { mutate(&mut rng, &a) };
        // only rules the parser can produce: no repeated entry and no file/directory clash inside a section
        let producible = |r : &Rule| -> bool
        {
            for list in [&r.targets, &r.sources]
            {
                for (i, x) in list.iter().enumerate()
                {
                    for (j, y) in list.iter().enumerate()
                    {
                        if i != j && (x == y || y.starts_with(&format!("{}/", x))) { return false; }
                    }
                }
            }
            true
        };
        if !producible(&a) || !producible(&b) { tally.counts.inc("pairs_skipped_not_parser_producible"); continue; }
        tally.cases_run += 1;
        tally.counts.inc(&format!("pair:{}", kind));
        let same_canon = canon(&a) == canon(&b);
        let same_ticket = a.get_ticket() == b.get_ticket();
        tally.eval(mix(fnv_str(&format!("{:?}", a)), fnv_str(&format!("{:?}", b))), kind != "independent" && kind != "none");
        tally.counts.inc(if same_canon { "pairs_that_must_be_equal" } else { "pairs_that_must_differ" });
        let mut problem = None;
        if same_canon != same_ticket
        {
            problem = Some((if same_canon { "identical-rules-different-identity" } else { "different-rules-same-identity" }.to_string(),
                format!("rules {:?} and {:?}: canonical forms equal = {}, identities equal = {}", a, b, same_canon, same_ticket)));
        }
        else
        {
            // the same pair through the real parser
            if let (Some(ta), Some(tb)) = (render(&mut rng, &a), render(&mut rng, &b))
            {
                match (parse("a.rules".to_string(), ta.clone()), parse("b.rules".to_string(), tb.clone()))
                {
                    (Ok(ra), Ok(rb)) if ra.len() == 1 && rb.len() == 1 =>
                    {
                        tally.counts.inc("pairs_also_through_the_parser");
                        let pa = &ra[0]; let pb = &rb[0];
                        if canon(pa) != canon(&a) || canon(pb) != canon(&b)
                        {
                            // the parser read something else than was written: C14's business, not judged here
                            tally.counts.inc("parser_read_differs_from_written");
                        }
                        else if (pa.get_ticket() == pb.get_ticket()) != same_canon
                        {
                            problem = Some(("parsed-identity-mismatch".to_string(), format!("after parsing, texts {:?} and {:?} have identities equal = {} but canonical forms equal = {}", ta, tb, pa.get_ticket() == pb.get_ticket(), same_canon)));
                        }
                        else if pa.get_ticket() != a.get_ticket()
                        {
                            problem = Some(("identity-depends-on-notation".to_string(), format!("rule {:?} has a different identity after being written as {:?} and parsed", a, ta)));
                        }
                    },
                    _ => { tally.counts.inc("render_not_parseable"); },
                }
            }
        }
        // the identity the build actually uses is the one the dependency sorter attaches to the rule's node (it names the
        // history file): it must behave the same way
        if problem.is_none()
        {
            let node_identity = |r : &Rule| -> Option<String>
            {
                match crate::sort::topological_sort_all(vec![r.clone()])
                {
                    Ok(pack) if pack.nodes.len() == 1 => Some(pack.nodes[0].rule_ticket.human_readable()),
                    _ => None,
                }
            };
            if let (Some(na), Some(nb)) = (node_identity(&a), node_identity(&b))
            {
                tally.counts.inc("pairs_also_through_the_sorter");
                if (na == nb) != same_canon
                {
                    problem = Some(("plan-identity-mismatch".to_string(), format!("the identities attached to the build plan of {:?} and {:?} are equal = {}, canonical forms equal = {}", a, b, na == nb, same_canon)));
                }
                else if na != a.get_ticket().human_readable()
                {
                    problem = Some(("plan-identity-differs-from-rule-identity".to_string(), format!("rule {:?} gets a different identity in the build plan than from the rule itself", a)));
                }
            }
        }
        if let Some((signature, what)) = problem
        {
            if reported.len() < 30 && reported.insert(format!("{}:{}", signature, kind))
            {
                emit_violation(&params, &mut tally, case, &Violation::new("C13", &signature, what), J::obj(vec![("pair_kind", J::s(kind))]));
            }
            else { tally.violations += 1; }
        }
        else if tally.wants_sample() && kind != "independent" && case % 50 == 7
        {
            tally.sample(J::obj(vec![("pair_kind", J::s(kind)), ("a", J::Str(format!("{:?}", a))), ("b", J::Str(format!("{:?}", b))), ("must_be_equal", J::Bool(same_canon))]));
        }
    }
    tally.emit_summary(&params, timed_out);
}

#[test] #[ignore] fn ident_c13() { drive(); }
