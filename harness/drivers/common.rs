// Shared driver plumbing: parameters from the environment, tallies, JSON-lines reporting.

use std::collections::BTreeSet;
use std::time::Instant;

use crate::verif::util::{emit, env_str, env_u64, mix, Counts, Rng, J};
use crate::verif::world::Violation;

pub struct Params
{
    pub driver : String,
    pub prop : String,
    pub seed : u64,
    pub shard : u64,
    pub shards : u64,
    pub tier : String,
    pub cases : u64,
    pub budget_ms : u64,
    pub only_case : Option<u64>,
    pub start : Instant,
}

impl Params
{
    pub fn from_env(driver : &str) -> Params
    {
        let only = env_u64("VERIF_CASE", u64::MAX);
        Params
        {
            driver : driver.to_string(),
            prop : env_str("VERIF_PROP", ""),
            seed : env_u64("VERIF_SEED", 1),
            shard : env_u64("VERIF_SHARD", 0),
            shards : env_u64("VERIF_SHARDS", 1),
            tier : env_str("VERIF_TIER", "quick"),
            cases : env_u64("VERIF_CASES", 50),
            budget_ms : env_u64("VERIF_BUDGET_MS", 30_000),
            only_case : if only == u64::MAX { None } else { Some(only) },
            start : Instant::now(),
        }
    }

    pub fn thorough(&self) -> bool { self.tier == "thorough" }

    pub fn case_rng(&self, case : u64) -> Rng
    {
        Rng::new(mix(mix(mix(self.seed, crate::verif::util::fnv_str(&self.prop)), self.shard), case))
    }

    pub fn out_of_time(&self) -> bool
    {
        self.start.elapsed().as_millis() as u64 > self.budget_ms
    }

    /* iterate the case indices this process should run */
    pub fn case_list(&self) -> Vec<u64>
    {
        match self.only_case
        {
            Some(c) => vec![c],
            None => (0..self.cases).collect(),
        }
    }

    pub fn replay(&self, case : u64) -> J
    {
        J::obj(vec![
            ("driver", J::s(&self.driver)),
            ("prop", J::s(&self.prop)),
            ("seed", J::u(self.seed)),
            ("shard", J::u(self.shard)),
            ("shards", J::u(self.shards)),
            ("tier", J::s(&self.tier)),
            ("case", J::u(case)),
        ])
    }
}

pub struct Tally
{
    pub evaluations : u64,
    pub nontrivial : u64,
    pub keys : BTreeSet<u64>,
    pub samples : Vec<J>,
    pub counts : Counts,
    pub violations : u64,
    pub cases_run : u64,
    pub max_samples : usize,
    /* cases that are pairwise distinct because an enumeration produced them (not stored as keys) */
    pub distinct_by_construction : u64,
}

impl Tally
{
    pub fn new() -> Tally
    {
        Tally { evaluations : 0, nontrivial : 0, keys : BTreeSet::new(), samples : vec![], counts : Counts::new(), violations : 0, cases_run : 0, max_samples : 3, distinct_by_construction : 0 }
    }

    /* one judged case; `key` identifies it for distinctness, counted only when non-trivial */
    pub fn eval(&mut self, key : u64, nontrivial : bool)
    {
        self.evaluations += 1;
        if nontrivial
        {
            self.nontrivial += 1;
            self.keys.insert(key);
        }
    }

    pub fn sample(&mut self, j : J)
    {
        if self.samples.len() < self.max_samples { self.samples.push(j); }
    }

    pub fn wants_sample(&self) -> bool { self.samples.len() < self.max_samples }

    pub fn emit_summary(&self, params : &Params, timed_out : bool)
    {
        emit(&J::obj(vec![
            ("type", J::s("summary")),
            ("driver", J::s(&params.driver)),
            ("prop", J::s(&params.prop)),
            ("shard", J::u(params.shard)),
            ("cases_run", J::u(self.cases_run)),
            ("evaluations", J::u(self.evaluations)),
            ("nontrivial", J::u(self.nontrivial)),
            ("keys", J::Arr(self.keys.iter().map(|k| J::Str(format!("{:016x}", k))).collect())),
            ("distinct_by_construction", J::u(self.distinct_by_construction)),
            ("counts", self.counts.to_j()),
            ("samples", J::Arr(self.samples.clone())),
            ("violations", J::u(self.violations)),
            ("stopped_by_time_cap", J::Bool(timed_out)),
            ("wall_ms", J::u(params.start.elapsed().as_millis() as u64)),
        ]));
    }
}

pub fn emit_violation(params : &Params, tally : &mut Tally, case : u64, v : &Violation, detail : J)
{
    tally.violations += 1;
    emit(&J::obj(vec![
        ("type", J::s("violation")),
        ("property", J::s(&v.property)),
        ("signature", J::s(&v.signature)),
        ("what", J::s(&v.what)),
        ("replay", params.replay(case)),
        ("detail", detail),
    ]));
}

pub fn emit_inconclusive(params : &Params, case : u64, why : &str)
{
    emit(&J::obj(vec![
        ("type", J::s("inconclusive")),
        ("why", J::s(why)),
        ("replay", params.replay(case)),
    ]));
}
