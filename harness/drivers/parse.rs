// C14: the rules-file parser against a reference reading of the format.
//
// Reference (written from the README, the property text and the behaviour the repository's tests pin down):
//   lines = text.split('\n'); a rule is targets ':' sources ':' command ':'; rules are separated by blank lines;
//   the first line at which the text stops being a viable prefix of a well-formed file is the offending line
//   (blank line inside a rule, ':' where a rule must start, end of file inside a section -> reported at
//   number_of_lines + 1).  Target and source sections are path bundles: leading tabs give the nesting depth,
//   a line deeper than its predecessor by more than one level is a wrong indent, a tabs-only line is an empty
//   line, siblings with equal names merge unless one is a file and the other a directory or their contents
//   differ (contradiction); paths come out depth-first with siblings in byte order.  Bundle problems of a rule
//   are reported when the rule closes, with indices relative to the section.
//
// The oracle accepts, for an input with several bundle problems in the rule that closes first, any of them; every
// other outcome must match exactly (kind, file name, line).  Any panic is a violation.

use std::collections::{BTreeMap, BTreeSet};
use std::panic::{catch_unwind, AssertUnwindSafe};

use crate::bundle;
use crate::rule::{parse, parse_all, ParseError, Rule};
use crate::verif::drivers::common::{emit_violation, Params, Tally};
use crate::verif::gen;
use crate::verif::model::{self, RenderStyle};
use crate::verif::shim;
use crate::verif::util::{fnv64, fnv_str, mix, show_bytes, Rng, J};
use crate::verif::world::Violation;

/* ------------------------------------------------------------------ reference */

#[derive(Clone, Debug, PartialEq)]
enum RNode
{
    Leaf,
    Parent(BTreeMap<String, RNode>),
}

fn ref_paths(tree : &BTreeMap<String, RNode>, prefix : &str, out : &mut Vec<String>)
{
    for (name, node) in tree.iter()
    {
        match node
        {
            RNode::Leaf => out.push(format!("{}{}", prefix, name)),
            RNode::Parent(children) => ref_paths(children, &format!("{}{}/", prefix, name), out),
        }
    }
}

/*  Build the sibling map for lines[lo..hi) which all have level >= `level` and whose first line has exactly `level`.
    Collects contradictions as (first index, later index). */
fn ref_block(lines : &[(usize, String)], lo : usize, hi : usize, level : usize, contradictions : &mut BTreeSet<(usize, usize)>) -> BTreeMap<String, RNode>
{
    let mut map : BTreeMap<String, (RNode, usize)> = BTreeMap::new();
    let mut i = lo;
    while i < hi
    {
        let mut j = i + 1;
        while j < hi && lines[j].0 > level { j += 1; }
        let name = lines[i].1.clone();
        let node = if j > i + 1 { RNode::Parent(ref_block(lines, i + 1, j, level + 1, contradictions)) } else { RNode::Leaf };
        match map.get(&name)
        {
            Some((existing, first)) =>
            {
                if *existing != node { contradictions.insert((*first, i)); }
            },
            None => { map.insert(name, (node, i)); },
        }
        i = j;
    }
    map.into_iter().map(|(k, (n, _))| (k, n)).collect()
}

/* Ok(paths) or the set of acceptable bundle error descriptions */
fn ref_bundle(section : &[&str]) -> Result<Vec<String>, BTreeSet<String>>
{
    let mut errors = BTreeSet::new();
    if section.len() == 0
    {
        errors.insert("Bundle:Empty".to_string());
        return Err(errors);
    }
    let empties : Vec<usize> = section.iter().enumerate().filter(|(_, l)| l.chars().all(|c| c == '\t')).map(|(i, _)| i).collect();
    if empties.len() > 0
    {
        errors.insert(format!("Bundle:EmptyLines{:?}", empties));
        return Err(errors);
    }
    let lines : Vec<(usize, String)> = section.iter().map(|l|
    {
        let level = l.chars().take_while(|c| *c == '\t').count();
        (level, l[level..].to_string())
    }).collect();
    let mut previous : i64 = -1;
    for (i, (level, _)) in lines.iter().enumerate()
    {
        if (*level as i64) > previous + 1 { errors.insert(format!("Bundle:WrongIndent({})", i)); }
        previous = *level as i64;
    }
    if errors.len() > 0
    {
        errors.insert("Bundle:Contradiction(*)".to_string());
        return Err(errors);
    }
    let mut contradictions = BTreeSet::new();
    let tree = ref_block(&lines, 0, lines.len(), 0, &mut contradictions);
    if contradictions.len() > 0
    {
        for (a, b) in contradictions { errors.insert(format!("Bundle:Contradiction({}, {})", a, b)); }
        return Err(errors);
    }
    let mut paths = vec![];
    ref_paths(&tree, "", &mut paths);
    Ok(paths)
}

#[derive(Clone, Debug, PartialEq)]
struct RefRule
{
    targets : Vec<String>,
    sources : Vec<String>,
    command : Vec<String>,
}

#[derive(Clone, Debug)]
enum RefOutcome
{
    Rules(Vec<RefRule>),
    /* exact error */
    Error(String),
    /* any of these bundle errors */
    BundleErrors(BTreeSet<String>),
}

fn ref_parse(text : &str) -> RefOutcome
{
    let lines : Vec<&str> = text.split('\n').collect();
    let mut rules = vec![];
    let mut mode = 0; // 0 pending, 1 targets, 2 sources, 3 command
    let mut t : Vec<&str> = vec![];
    let mut s : Vec<&str> = vec![];
    let mut c : Vec<String> = vec![];
    for (k, line) in lines.iter().enumerate()
    {
        let n = k + 1;
        match (mode, *line)
        {
            (0, "") => {},
            (0, ":") => return RefOutcome::Error(format!("ExtraColon@{}", n)),
            (0, l) => { mode = 1; t.push(l); },
            (_, "") => return RefOutcome::Error(format!("EmptyLine@{}", n)),
            (1, ":") => mode = 2,
            (1, l) => t.push(l),
            (2, ":") => mode = 3,
            (2, l) => s.push(l),
            (3, ":") =>
            {
                mode = 0;
                let mut errors = BTreeSet::new();
                let targets = match ref_bundle(&t) { Ok(p) => p, Err(e) => { errors.extend(e); vec![] } };
                let sources = match ref_bundle(&s) { Ok(p) => p, Err(e) => { errors.extend(e); vec![] } };
                if errors.len() > 0 { return RefOutcome::BundleErrors(errors); }
                rules.push(RefRule { targets : targets, sources : sources, command : c.clone() });
                t.clear(); s.clear(); c.clear();
            },
            (_, l) => c.push(l.to_string()),
        }
    }
    match mode
    {
        0 => RefOutcome::Rules(rules),
        1 => RefOutcome::Error(format!("EofTargets@{}", lines.len() + 1)),
        2 => RefOutcome::Error(format!("EofSources@{}", lines.len() + 1)),
        _ => RefOutcome::Error(format!("EofCommand@{}", lines.len() + 1)),
    }
}

fn describe_error(e : &ParseError) -> (String, String)
{
    match e
    {
        ParseError::UnexpectedEmptyLine(f, n) => (f.clone(), format!("EmptyLine@{}", n)),
        ParseError::UnexpectedExtraColon(f, n) => (f.clone(), format!("ExtraColon@{}", n)),
        ParseError::UnexpectedEndOfFileMidTargets(f, n) => (f.clone(), format!("EofTargets@{}", n)),
        ParseError::UnexpectedEndOfFileMidSources(f, n) => (f.clone(), format!("EofSources@{}", n)),
        ParseError::UnexpectedEndOfFileMidCommand(f, n) => (f.clone(), format!("EofCommand@{}", n)),
        ParseError::BundleError(f, b) => (f.clone(), match b
        {
            bundle::ParseError::Empty => "Bundle:Empty".to_string(),
            bundle::ParseError::ContainsEmptyLines(v) => format!("Bundle:EmptyLines{:?}", v),
            bundle::ParseError::Contradiction(a, b) => format!("Bundle:Contradiction({}, {})", a, b),
            bundle::ParseError::WrongIndent(i) => format!("Bundle:WrongIndent({})", i),
        }),
    }
}

/* Compare the real result with the reference.  Err(signature, text) on disagreement. */
fn compare(file : &str, real : &Result<Vec<Rule>, ParseError>, reference : &RefOutcome) -> Result<(), (String, String)>
{
    match (real, reference)
    {
        (Ok(rules), RefOutcome::Rules(expected)) =>
        {
            let got : Vec<RefRule> = rules.iter().map(|r| RefRule { targets : r.targets.clone(), sources : r.sources.clone(), command : r.command.clone() }).collect();
            if got == *expected { Ok(()) }
            else { Err(("rules-differ".to_string(), format!("parsed rules {:?} differ from the written ones {:?}", got, expected))) }
        },
        (Ok(rules), other) => Err(("accepted-malformed".to_string(), format!("accepted as {} rules, but the text is malformed: {:?}", rules.len(), other))),
        (Err(e), RefOutcome::Rules(expected)) => Err(("rejected-wellformed".to_string(), format!("well-formed text with {} rules was rejected: {:?}", expected.len(), e))),
        (Err(e), RefOutcome::Error(expected)) =>
        {
            let (f, d) = describe_error(e);
            if f != file { Err(("wrong-file-name".to_string(), format!("error names file {:?}, the text came from {:?}", f, file))) }
            else if d == *expected { Ok(()) }
            else { Err(("wrong-error".to_string(), format!("reported {} where the offending line gives {}", d, expected))) }
        },
        (Err(e), RefOutcome::BundleErrors(set)) =>
        {
            let (f, d) = describe_error(e);
            let wildcard = d.starts_with("Bundle:Contradiction") && set.contains("Bundle:Contradiction(*)");
            if f != file { Err(("wrong-file-name".to_string(), format!("error names file {:?}, the text came from {:?}", f, file))) }
            else if set.contains(&d) || wildcard { Ok(()) }
            else { Err(("wrong-error".to_string(), format!("reported {} where the rule's sections have {:?}", d, set))) }
        },
    }
}

/* ------------------------------------------------------------------ input generators */

const SOUP : &[&str] = &["a", "b", "a", ":", ":", ";", "\t", "\t\t", "\r", " ", "é", "\n", "\n", "\n", "\n\n", "x/y", "dir", ":\n", "\ta", "\t\tb", "a b", ":a", "\u{0}"];

fn soup(rng : &mut Rng, max_tokens : usize) -> String
{
    let n = rng.below(max_tokens + 1);
    let mut s = String::new();
    for _ in 0..n { s.push_str(SOUP[rng.below(SOUP.len())]); }
    s
}

/* lines-level soup: more likely to get past the first line */
fn line_soup(rng : &mut Rng) -> String
{
    let pool = ["a", "b", "dir", "\tc", "\t\td", "\tc", ":", ":", ":", "", "", "cmd x", ";", "\t", "a", "dir", "\te", " "];
    let n = rng.below(24);
    let mut lines = vec![];
    for _ in 0..n { lines.push(pool[rng.below(pool.len())]); }
    lines.join("\n") + if rng.chance(1, 2) { "\n" } else { "" }
}

fn rendered(rng : &mut Rng) -> (String, Vec<model::GRule>)
{
    let graph = gen::any_graph(rng, 6);
    let style = RenderStyle::random(rng);
    (model::render_rules(&graph.rules, &style, rng), graph.rules)
}

fn corrupt(rng : &mut Rng, text : &str) -> (String, &'static str)
{
    let mut lines : Vec<String> = text.split('\n').map(|s| s.to_string()).collect();
    if lines.len() == 0 { return (text.to_string(), "none"); }
    let i = rng.below(lines.len());
    let kind = match rng.below(10)
    {
        0 => { lines.remove(i); "delete-line" },
        1 => { lines.insert(i, "".to_string()); "insert-blank" },
        2 => { lines.insert(i, ":".to_string()); "insert-colon" },
        3 => { if let Some(p) = lines.iter().position(|l| l == ":") { lines.insert(p, ":".to_string()); } "duplicate-colon" },
        4 => { lines.truncate(i); "truncate-no-newline" },
        5 => { lines.truncate(i); lines.push("".to_string()); "truncate-with-newline" },
        6 => { lines[i] = format!("\t{}", lines[i]); "extra-indent" },
        7 => { lines[i] = format!("\t\t{}", lines[i]); "extra-indent-2" },
        8 =>
        {
            // directory / file clash or conflicting duplicate bundle: repeat a line with a different child
            let l = lines[i].clone();
            lines.insert(i + 1, format!("\t{}", "clash"));
            lines.insert(i + 2, l);
            "clash"
        },
        _ => { lines[i] = "\t".repeat(rng.below(3)); "tabs-only-line" },
    };
    (lines.join("\n"), kind)
}

fn deep_bundle(rng : &mut Rng) -> String
{
    let depth = rng.range(2, 60);
    let mut s = String::new();
    for d in 0..depth { s.push_str(&"\t".repeat(d)); s.push_str(&format!("d{}\n", d % 3)); }
    if rng.chance(1, 2) { s.push_str(&"\t".repeat(rng.below(depth + 2))); s.push_str("tail\n"); }
    format!("{}:\nsrc\n:\ncmd\n:\n", s)
}

pub fn drive()
{
    let params = Params::from_env("parse");
    let mut tally = Tally::new();
    shim::install_panic_hook();
    shim::set_quiet(true);
    let mut timed_out = false;
    let mut reported : BTreeSet<String> = BTreeSet::new();
    for case in params.case_list()
    {
        if case % 64 == 0 && params.out_of_time() { timed_out = true; break; }
        let mut rng = params.case_rng(case);
        let (text, class) : (String, String) = match rng.below(12)
        {
            0 | 1 | 2 => (rendered(&mut rng).0, "rendered".to_string()),
            3 | 4 | 5 | 6 => { let (t, _) = rendered(&mut rng); let (c, k) = corrupt(&mut rng, &t); (c, format!("corrupted:{}", k)) },
            7 => { let (t, _) = rendered(&mut rng); let (c, _) = corrupt(&mut rng, &t); let (c2, _) = corrupt(&mut rng, &c); (c2, "corrupted-twice".to_string()) },
            8 => (soup(&mut rng, 40), "token-soup".to_string()),
            9 => (line_soup(&mut rng), "line-soup".to_string()),
            10 => (deep_bundle(&mut rng), "deep-bundle".to_string()),
            _ => (soup(&mut rng, 3000), "long-soup".to_string()),
        };
        tally.cases_run += 1;
        tally.counts.inc(&format!("class:{}", class));
        let file = format!("f{}.rules", case % 7);

        let reference = ref_parse(&text);
        let real = catch_unwind(AssertUnwindSafe(|| parse(file.clone(), text.clone())));
        let complete_section = text.split('\n').any(|l| l == ":");
        tally.eval(fnv_str(&text), complete_section);
        match &reference { RefOutcome::Rules(r) => { tally.counts.inc("reference:well-formed"); tally.counts.add("rules_compared", r.len() as u64); }, RefOutcome::Error(e) => tally.counts.inc(&format!("reference:{}", e.split('@').next().unwrap_or(""))), RefOutcome::BundleErrors(_) => tally.counts.inc("reference:bundle-error") };

        let problem = match &real
        {
            Err(_) => Some(("panic".to_string(), format!("the parser panicked: {}", shim::take_last_panic().unwrap_or("?".to_string())))),
            Ok(result) => compare(&file, result, &reference).err(),
        };

        // parse_all over several files: concatenation, and the error carries the right file name
        let mut problem = problem;
        if problem.is_none() && case % 5 == 0
        {
            let (other, _) = rendered(&mut rng);
            let files = vec![("first.rules".to_string(), other.clone()), (file.clone(), text.clone())];
            let all = catch_unwind(AssertUnwindSafe(|| parse_all(files)));
            tally.counts.inc("parse_all_calls");
            match all
            {
                Err(_) => problem = Some(("panic".to_string(), "parse_all panicked".to_string())),
                Ok(result) =>
                {
                    let first = ref_parse(&other);
                    let expected = match (&first, &reference)
                    {
                        (RefOutcome::Rules(a), RefOutcome::Rules(b)) => { let mut v = a.clone(); v.extend(b.clone()); RefOutcome::Rules(v) },
                        (RefOutcome::Rules(_), other_outcome) => other_outcome.clone(),
                        (bad, _) => bad.clone(),
                    };
                    let which = match &first { RefOutcome::Rules(_) => file.clone(), _ => "first.rules".to_string() };
                    if let Err((sig, what)) = compare(&which, &result, &expected)
                    {
                        problem = Some((format!("parse_all:{}", sig), what));
                    }
                }
            }
        }

        if let Some((signature, what)) = problem
        {
            if reported.len() < 30 && reported.insert(format!("{}:{}", signature, class))
            {
                let v = Violation::new("C14", &signature, what);
                emit_violation(&params, &mut tally, case, &v, J::obj(vec![("input_class", J::s(&class)), ("text", J::Str(text.chars().take(1500).collect()))]));
            }
            else { tally.violations += 1; }
        }
        else if tally.wants_sample() && class.starts_with("corrupted")
        {
            tally.sample(J::obj(vec![("input_class", J::s(&class)), ("text", J::Str(text.chars().take(400).collect())), ("reference_outcome", J::Str(format!("{:?}", reference).chars().take(300).collect()))]));
        }
    }
    tally.emit_summary(&params, timed_out);
}

#[test] #[ignore] fn parse_c14() { drive(); }
