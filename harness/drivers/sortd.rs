// C12: the dependency sorter against an independent, set-based reference.
//
// For every rule set and goal the reference computes which conditions are TRUE of the input (duplicate target,
// goal missing, reachable self-dependence, reachable cycle).  An Err is right iff its kind's condition is true and
// the path it names is a witness; Ok is right iff no condition is true, and then the plan is checked structurally
// (exactly the reachable rules, once each, producers first, bindings to the right target / leaf, identity and
// command carried over) and must be equal for every ordering of the rules in the input.

use std::collections::{BTreeMap, BTreeSet};

use crate::rule::Rule;
use crate::sort::{topological_sort, topological_sort_all, NodePack, SourceIndex, TopologicalSortError};
use crate::verif::drivers::common::{emit_violation, Params, Tally};
use crate::verif::util::{fnv_str, mix, Rng, J};
use crate::verif::world::Violation;

struct Facts
{
    dup : BTreeSet<String>,
    goal_missing : bool,
    /* indices of reachable rules (all rules for build-all); empty when the goal is missing */
    reachable : BTreeSet<usize>,
    self_dependent : BTreeSet<String>,
    cycle : bool,
    producers : BTreeMap<String, Vec<usize>>,
}

fn facts(rules : &[Rule], goal : Option<&str>) -> Facts
{
    let mut producers : BTreeMap<String, Vec<usize>> = BTreeMap::new();
    for (i, r) in rules.iter().enumerate()
    {
        for t in r.targets.iter() { producers.entry(t.clone()).or_insert(vec![]).push(i); }
    }
    let dup : BTreeSet<String> = producers.iter().filter(|(_, v)| v.len() > 1).map(|(k, _)| k.clone()).collect();
    let goal_missing = match goal { Some(g) => !producers.contains_key(g), None => false };

    let mut reachable = BTreeSet::new();
    let mut stack : Vec<usize> = match goal
    {
        Some(g) => producers.get(g).cloned().unwrap_or(vec![]),
        None => (0..rules.len()).collect(),
    };
    while let Some(i) = stack.pop()
    {
        if !reachable.insert(i) { continue; }
        for s in rules[i].sources.iter()
        {
            if let Some(ps) = producers.get(s) { for p in ps { stack.push(*p); } }
        }
    }

    let mut self_dependent = BTreeSet::new();
    for i in reachable.iter()
    {
        for t in rules[*i].targets.iter()
        {
            if rules[*i].sources.contains(t) { self_dependent.insert(t.clone()); }
        }
    }

    // cycle among reachable rules (self-loops count): repeatedly remove rules all of whose producers are removed
    let mut alive : BTreeSet<usize> = reachable.clone();
    loop
    {
        let removable : Vec<usize> = alive.iter().cloned().filter(|i|
        {
            rules[*i].sources.iter().all(|s| match producers.get(s)
            {
                Some(ps) => ps.iter().all(|p| !alive.contains(p)),
                None => true,
            })
        }).collect();
        if removable.len() == 0 { break; }
        for r in removable { alive.remove(&r); }
    }
    Facts { dup : dup, goal_missing : goal_missing, reachable : reachable, self_dependent : self_dependent, cycle : alive.len() > 0, producers : producers }
}

fn sorted(v : &Vec<String>) -> Vec<String>
{
    let mut c = v.clone();
    c.sort();
    c
}

fn check_pack(rules : &[Rule], f : &Facts, pack : &NodePack) -> Result<(), String>
{
    // exactly the reachable rules, once each
    let mut seen = BTreeSet::new();
    let mut index_of_rule : Vec<usize> = vec![];
    for (k, node) in pack.nodes.iter().enumerate()
    {
        let pos = rules.iter().position(|r| sorted(&r.targets) == sorted(&node.targets));
        let i = match pos { Some(i) => i, None => return Err(format!("node {} with targets {:?} corresponds to no rule", k, node.targets)) };
        if !f.reachable.contains(&i) { return Err(format!("node {} (targets {:?}) is not a prerequisite of the goal", k, node.targets)); }
        if !seen.insert(i) { return Err(format!("rule with targets {:?} appears twice in the plan", node.targets)); }
        index_of_rule.push(i);
        let r = &rules[i];
        if node.targets != sorted(&r.targets) { return Err(format!("node targets {:?} are not the rule's targets in order", node.targets)); }
        if node.command != r.command { return Err(format!("node for {:?} carries command {:?} instead of {:?}", node.targets, node.command, r.command)); }
        if node.rule_ticket != r.get_ticket() { return Err(format!("node for {:?} carries a different rule identity", node.targets)); }
        let srcs = sorted(&r.sources);
        if node.source_indices.len() != srcs.len() { return Err(format!("node for {:?} has {} source bindings for {} sources", node.targets, node.source_indices.len(), srcs.len())); }
        for (j, s) in srcs.iter().enumerate()
        {
            match &node.source_indices[j]
            {
                SourceIndex::Pair(i2, sub) =>
                {
                    if *i2 >= k { return Err(format!("node {} ({:?}) is placed before or at its prerequisite node {}", k, node.targets, i2)); }
                    match pack.nodes[*i2].targets.get(*sub)
                    {
                        Some(t) if t == s => {},
                        other => return Err(format!("source {} of {:?} is bound to target {:?} of node {}", s, node.targets, other, i2)),
                    }
                },
                SourceIndex::Leaf(l) =>
                {
                    match pack.leaves.get(*l)
                    {
                        Some(t) if t == s => {},
                        other => return Err(format!("source {} of {:?} is bound to leaf {:?}", s, node.targets, other)),
                    }
                    if f.producers.contains_key(s) { return Err(format!("source {} of {:?} is bound to a leaf although a rule produces it", s, node.targets)); }
                },
            }
        }
    }
    if seen.len() != f.reachable.len()
    {
        return Err(format!("plan has {} rules, the goal needs {}", seen.len(), f.reachable.len()));
    }
    // leaves = exactly the non-produced sources of included rules
    let mut wanted = BTreeSet::new();
    for i in f.reachable.iter() { for s in rules[*i].sources.iter() { if !f.producers.contains_key(s) { wanted.insert(s.clone()); } } }
    let got : BTreeSet<String> = pack.leaves.iter().cloned().collect();
    if got.len() != pack.leaves.len() { return Err(format!("leaf list has duplicates: {:?}", pack.leaves)); }
    if got != wanted { return Err(format!("leaves {:?} differ from the non-produced sources {:?}", got, wanted)); }
    Ok(())
}

fn call(rules : &[Rule], goal : Option<&str>) -> Result<NodePack, TopologicalSortError>
{
    match goal
    {
        Some(g) => topological_sort(rules.to_vec(), g),
        None => topological_sort_all(rules.to_vec()),
    }
}

/* Judge one sorter call.  Returns Err(signature, description) on a violation. */
fn judge(rules : &[Rule], goal : Option<&str>, result : &Result<NodePack, TopologicalSortError>) -> Result<(), (String, String)>
{
    let f = facts(rules, goal);
    let any = f.dup.len() > 0 || f.goal_missing || f.self_dependent.len() > 0 || f.cycle;
    match result
    {
        Ok(pack) =>
        {
            if any
            {
                return Err(("accepted-invalid".to_string(), format!("accepted although dup={:?} goal_missing={} self_dependent={:?} cycle={}", f.dup, f.goal_missing, f.self_dependent, f.cycle)));
            }
            match check_pack(rules, &f, pack)
            {
                Ok(()) => Ok(()),
                Err(why) => Err(("bad-plan".to_string(), why)),
            }
        },
        Err(e) =>
        {
            let right = match e
            {
                TopologicalSortError::TargetInMultipleRules(t) => f.dup.contains(t),
                TopologicalSortError::TargetMissing(t) => f.goal_missing && Some(t.as_str()) == goal,
                TopologicalSortError::SelfDependentRule(t) => f.self_dependent.contains(t),
                TopologicalSortError::CircularDependence(_) => f.cycle,
            };
            if right { Ok(()) }
            else if !any
            {
                let kind = match e { TopologicalSortError::CircularDependence(_) => "rejected-valid:CircularDependence", _ => "rejected-valid" };
                Err((kind.to_string(), format!("a valid rule set was rejected with {:?}", e)))
            }
            else
            {
                Err(("wrong-error".to_string(), format!("error {:?} does not match what is wrong (dup={:?} goal_missing={} self_dependent={:?} cycle={})", e, f.dup, f.goal_missing, f.self_dependent, f.cycle)))
            }
        },
    }
}

fn describe(rules : &[Rule], goal : Option<&str>) -> J
{
    J::obj(vec![
        ("rules", J::Arr(rules.iter().map(|r| J::Str(format!("{} <- {}", r.targets.join(" "), r.sources.join(" ")))).collect())),
        ("goal", match goal { Some(g) => J::s(g), None => J::Null }),
    ])
}

struct Ctx<'a>
{
    params : &'a Params,
    tally : &'a mut Tally,
    reported : BTreeSet<String>,
    case : u64,
    /* inside an exhaustive stage every input is distinct by construction: count, do not store keys */
    exhaustive : bool,
}

/* canonical description for distinctness */
fn canon_key(rules : &[Rule], goal : Option<&str>) -> u64
{
    let mut parts : Vec<String> = rules.iter().map(|r| format!("{}<{}", sorted(&r.targets).join(","), sorted(&r.sources).join(","))).collect();
    parts.sort();
    mix(fnv_str(&parts.join("|")), fnv_str(goal.unwrap_or("<all>")))
}

fn run_one(ctx : &mut Ctx, rules : &[Rule], goal : Option<&str>, check_order : bool, rng : &mut Rng)
{
    let result = call(rules, goal);
    if ctx.exhaustive
    {
        ctx.tally.evaluations += 1;
        if rules.len() >= 2 { ctx.tally.nontrivial += 1; ctx.tally.distinct_by_construction += 1; }
    }
    else
    {
        ctx.tally.eval(canon_key(rules, goal), rules.len() >= 2);
    }
    match &result { Ok(_) => ctx.tally.counts.inc("accepted"), Err(e) => ctx.tally.counts.inc(&format!("rejected:{}", format!("{:?}", e).split('(').next().unwrap_or(""))) };
    let mut problem = judge(rules, goal, &result).err();
    if problem.is_none() && check_order && rules.len() >= 2
    {
        let mut shuffled = rules.to_vec();
        rng.shuffle(&mut shuffled);
        let again = call(&shuffled, goal);
        let same = match (&result, &again)
        {
            (Ok(a), Ok(b)) => a == b,
            (Err(a), Err(b)) => std::mem::discriminant(a) == std::mem::discriminant(b),
            _ => false,
        };
        ctx.tally.counts.inc("order_pairs_compared");
        if !same
        {
            problem = Some(("order-dependent".to_string(), format!("the result changes when the rules are given in another order: {:?} vs {:?}",
                result.as_ref().map(|p| p.nodes.iter().map(|n| n.targets.join(" ")).collect::<Vec<_>>()),
                again.as_ref().map(|p| p.nodes.iter().map(|n| n.targets.join(" ")).collect::<Vec<_>>()))));
        }
    }
    if let Some((signature, _)) = &problem
    {
        // shrink the witness: drop rules and sources while the same kind of violation persists
        if !ctx.exhaustive && ctx.reported.len() < 40
        {
            let mut small = rules.to_vec();
            let sig = signature.clone();
            let still = |candidate : &Vec<Rule>| -> bool
            {
                match judge(candidate, goal, &call(candidate, goal)) { Err((s2, _)) => s2 == sig, Ok(()) => false }
            };
            let mut progress = true;
            while progress
            {
                progress = false;
                let mut i = 0;
                while i < small.len()
                {
                    let mut candidate = small.clone();
                    candidate.remove(i);
                    if still(&candidate) { small = candidate; progress = true; } else { i += 1; }
                }
                for i in 0..small.len()
                {
                    let mut j = 0;
                    while j < small[i].sources.len()
                    {
                        if small[i].sources.len() <= 1 { break; }
                        let mut candidate = small.clone();
                        candidate[i].sources.remove(j);
                        if still(&candidate) { small = candidate; progress = true; } else { j += 1; }
                    }
                }
            }
            if small.len() < rules.len()
            {
                let result = call(&small, goal);
                if let Err((s2, w2)) = judge(&small, goal, &result)
                {
                    let key = format!("{}:{}", s2, canon_key(&small, goal));
                    if ctx.reported.insert(key)
                    {
                        let v = Violation::new("C12", &s2, format!("{} (shrunk from a {}-rule input)", w2, rules.len()));
                        emit_violation(ctx.params, ctx.tally, ctx.case, &v, describe(&small, goal));
                    }
                    else { ctx.tally.violations += 1; }
                    return;
                }
            }
        }
    }
    if let Some((signature, what)) = problem
    {
        let key = format!("{}:{}", signature, canon_key(rules, goal));
        if ctx.reported.len() < 40 && ctx.reported.insert(key)
        {
            let v = Violation::new("C12", &signature, what);
            emit_violation(ctx.params, ctx.tally, ctx.case, &v, describe(rules, goal));
        }
        else
        {
            ctx.tally.violations += 1;
        }
    }
    else if ctx.tally.wants_sample() && rules.len() >= 3 && result.is_ok()
    {
        let order : Vec<String> = result.as_ref().unwrap().nodes.iter().map(|n| n.targets.join(" ")).collect();
        ctx.tally.sample(J::obj(vec![("input", describe(rules, goal)), ("plan_order", J::strs(&order))]));
    }
}

const NAMES : &[&str] = &["a", "b", "c", "d", "e"];

/*  Rule k has target(s) named after NAMES[perm[k]]; an edge k->j adds a target of rule j to rule k's sources;
    `binding` picks which target of a two-target rule each edge uses. */
fn build_rules(n : usize, matrix : u32, two_targets : bool, binding : u64, reversed_lists : bool) -> Vec<Rule>
{
    let mut rules = vec![];
    let mut edge : u32 = 0;
    for k in 0..n
    {
        let name = NAMES[k];
        let targets = if two_targets { vec![format!("{}0", name), format!("{}1", name)] } else { vec![name.to_string()] };
        let mut sources = vec![];
        for j in 0..n
        {
            if (matrix >> (k * n + j)) & 1 == 1
            {
                let other = NAMES[j];
                // base-3 digit per edge: 0 = first target, 1 = second target, 2 = both targets of the other rule
                let pick = if two_targets { (binding / 3u64.pow(edge)) % 3 } else { 0 };
                edge += 1;
                if !two_targets { sources.push(other.to_string()); }
                else
                {
                    if pick == 0 || pick == 2 { sources.push(format!("{}0", other)); }
                    if pick == 1 || pick == 2 { sources.push(format!("{}1", other)); }
                }
            }
        }
        if sources.len() == 0 { sources.push(format!("leaf{}", k)); }
        sources.sort();
        let mut targets = targets;
        if reversed_lists
        {
            // the parser's canonical order is the bundle's depth-first order, which is not always plain string order;
            // the sorter must cope with lists that are not sorted
            targets.reverse();
            sources.reverse();
        }
        rules.push(Rule::new(targets, sources, vec![format!("cmd{}", k)]));
    }
    rules
}

/*  Exhaustive enumeration, sharded by matrix index.  Every adjacency matrix over the NAMED rules a, b, c, ...
    (self-loops included) is one input; names are fixed, so all matrices cover all name orders relative to the
    dependency order.  Each input is sorted for build-all and for every rule's target as goal, and once more
    with the rules given in a shuffled order. */
fn exhaustive(ctx : &mut Ctx, n : usize, two_targets : bool, rng : &mut Rng)
{
    let total : u64 = 1u64 << (n * n);
    let mut m = ctx.params.shard;
    ctx.exhaustive = true;
    while m < total
    {
        let matrix = m as u32;
        let edges = matrix.count_ones();
        let bindings : Vec<u64> = if !two_targets { vec![0] }
            else if n <= 3 { (0..3u64.pow(edges)).collect() }
            else { vec![rng.next_u64() % 3u64.pow(edges), rng.next_u64() % 3u64.pow(edges)] };
        for binding in bindings.iter()
        {
            let rules = build_rules(n, matrix, two_targets, *binding, two_targets && (binding + m) % 2 == 1);
            run_one(ctx, &rules, None, true, rng);
            for k in 0..n
            {
                let goal = rules[k].targets.iter().max().unwrap().clone();
                run_one(ctx, &rules, Some(&goal), n <= 4 && k == 0, rng);
            }
            if m % 97 == 0 { run_one(ctx, &rules, Some("nosuch"), false, rng); }
        }
        m += ctx.params.shards;
    }
    ctx.exhaustive = false;
    ctx.tally.counts.add(&format!("stage_done:{}_rules_{}", n, if two_targets {"two_targets"} else {"single_target"}), 1);
}

fn random_rules(rng : &mut Rng) -> (Vec<Rule>, Option<String>)
{
    let n = rng.range(2, 40);
    let pool = n + rng.below(n + 4) + 2;
    let name = |i : usize| format!("p{:02}", i);
    let mut rules = vec![];
    let mut used_targets : Vec<String> = vec![];
    let acyclic = rng.chance(2, 3);
    let allow_dup = rng.chance(1, 6);
    let repeat_sources = rng.chance(1, 4);
    for k in 0..n
    {
        let nt = 1 + rng.weighted(&[5, 2, 1]);
        let mut targets = vec![];
        for _ in 0..nt
        {
            let t = if allow_dup && used_targets.len() > 0 && rng.chance(1, 12) { used_targets[rng.below(used_targets.len())].clone() } else { format!("{}.{}", name(rng.below(pool)), k) };
            if !targets.contains(&t) { targets.push(t); }
        }
        targets.sort();
        let ns = 1 + rng.below(4);
        let mut sources = vec![];
        for _ in 0..ns
        {
            let s =
                if used_targets.len() > 0 && rng.chance(2, 3)
                {
                    if acyclic { used_targets[rng.below(used_targets.len())].clone() }
                    else if rng.chance(1, 10) && targets.len() > 0 { targets[rng.below(targets.len())].clone() }
                    else { used_targets[rng.below(used_targets.len())].clone() }
                }
                else { format!("leaf{}", rng.below(8)) };
            if !sources.contains(&s) { sources.push(s); }
        }
        // the parser keeps a path twice when it is written once flat and once through a bundle ("d/x" and "d" + tab "x")
        if repeat_sources && rng.chance(1, 3)
        {
            let s = sources[rng.below(sources.len())].clone();
            sources.push(s);
        }
        sources.sort();
        used_targets.extend(targets.clone());
        rules.push(Rule::new(targets, sources, vec![format!("c{}", k)]));
    }
    // the same rule given twice (one rules file passed twice, a shared rule copied into two files): its targets are then
    // targets of two rules
    if rng.chance(1, 10)
    {
        let copy = rules[rng.below(rules.len())].clone();
        rules.push(copy);
    }
    if !acyclic
    {
        // add a few back edges
        for _ in 0..rng.range(1, 3)
        {
            let i = rng.below(rules.len());
            let t = used_targets[rng.below(used_targets.len())].clone();
            if !rules[i].sources.contains(&t) { rules[i].sources.push(t); rules[i].sources.sort(); }
        }
    }
    if rng.chance(1, 2)
    {
        for r in rules.iter_mut() { rng.shuffle(&mut r.targets); rng.shuffle(&mut r.sources); }
    }
    rng.shuffle(&mut rules);
    let goal = if rng.chance(1, 2) { Some(used_targets[rng.below(used_targets.len())].clone()) } else if rng.chance(1, 10) { Some("absent".to_string()) } else { None };
    (rules, goal)
}

#[test]
#[ignore]
fn sort_c12()
{
    let params = Params::from_env("sort");
    let mut tally = Tally::new();
    let mut rng = params.case_rng(0);
    let mut ctx = Ctx { params : &params, tally : &mut tally, reported : BTreeSet::new(), case : 0, exhaustive : false };
    let stage = crate::verif::util::env_str("VERIF_STAGE", "all");

    if stage == "all" || stage == "exhaustive"
    {
        for n in 1..=4 { exhaustive(&mut ctx, n, false, &mut rng); }
        for n in 1..=4 { exhaustive(&mut ctx, n, true, &mut rng); }
    }
    if stage == "five"
    {
        exhaustive(&mut ctx, 5, false, &mut rng);
    }
    if stage == "all" || stage == "random"
    {
        for case in 0..params.cases
        {
            if params.out_of_time() { break; }
            ctx.case = case;
            let mut r = params.case_rng(case + 1);
            let (rules, goal) = random_rules(&mut r);
            run_one(&mut ctx, &rules, goal.as_deref(), true, &mut r);
            ctx.tally.cases_run += 1;
        }
    }
    tally.emit_summary(&params, false);
}
