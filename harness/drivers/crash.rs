// C11: kill points.  A kill loses no completed system call, so the disk at a kill instant is the state after a
// prefix of the mutation sequence (plus, for a write in flight, a prefix of its bytes).  VSys records a deep copy
// of the disk before every mutation of the interrupted invocation; every such snapshot is then audited and
// recovered from: cache audit, content containment, a fresh build-all that must succeed and equal the
// from-scratch model, and a short probe history (edit, build, revert, build).

use std::collections::BTreeSet;

use crate::verif::drivers::common::{emit_inconclusive, emit_violation, Params, Tally};
use crate::verif::drivers::sched::{make_scenario, Final, Scenario};
use crate::verif::shim::Policy;
use crate::verif::util::{fnv64, fnv_str, mix, Rng, J};
use crate::verif::vsys::{Clock, Disk, Snapshot, VSys, ruler_dir};
use crate::verif::world::{self, Obs, SchedChoice, Verdict, Violation};

fn disk_hash(disk : &Disk) -> u64
{
    let mut h = 1469598103934665603u64;
    for (path, node) in disk.nodes.iter()
    {
        h = mix(h, fnv_str(path));
        if let crate::verif::vsys::Node::File(ino) = node
        {
            if let Some(inode) = disk.inodes.get(ino)
            {
                h = mix(h, fnv64(&inode.data));
                h = mix(h, inode.mtime ^ (inode.exec as u64));
            }
        }
    }
    h
}

fn classify_pending(pending : &str) -> String
{
    let state_file = pending.contains(&format!("{}/history/", ruler_dir())) || pending.contains(&format!("{}/current_file_states", ruler_dir()));
    let op = pending.split_whitespace().next().unwrap_or("?");
    if state_file { format!("{}:state-file", op) }
    else if pending.contains(&format!("{}/cache/", ruler_dir())) { format!("{}:cache", op) }
    else if pending.starts_with("command") { "command-output".to_string() }
    else { format!("{}:other", op) }
}

fn tag(v : Violation, phase : &str, snap : &Snapshot) -> Violation
{
    let torn = match snap.torn { Some(k) => format!(" with the first {} bytes of it on disk", k), None => "".to_string() };
    Violation::new("C11", &format!("{}:{}:{}", phase, v.signature, classify_pending(&snap.pending)),
        format!("killed after {} mutations (next: {}{}): {} [{}]", snap.index, snap.pending, torn, v.what, v.property))
}

/* Recover from one snapshot.  Returns violations (already tagged C11). */
fn recover(sc : &mut Scenario, base : &Disk, snap : &Snapshot, rng : &mut Rng, tally : &mut Tally) -> Vec<Violation>
{
    let mut out = vec![];

    // at the kill instant: cache still content-addressed, nothing lost
    for v in world::m_cas(&snap.disk).0 { out.push(tag(v, "at-kill", snap)); }
    for v in world::m_keep(base, &snap.disk, &sc.run.world.ever_targets).0 { out.push(tag(v, "at-kill", snap)); }
    if out.len() > 0 { return out; }

    // the next build completes and is right
    sc.run.world.sys = VSys::from_disk(snap.disk.clone(), Clock::Distinct, rng.next_u64());
    sc.run.world.fresh_build = None;
    let obs = sc.run.world.invoke_build(None, &SchedChoice::serial());
    tally.counts.inc("recovery_builds");
    let mut problems : Vec<Violation> = vec![];
    problems.extend(world::m_live(&obs));
    problems.extend(world::m_fail(&obs));
    if !sc.run.world.has_undeclared { problems.extend(world::m_final(&obs).0); }
    problems.extend(world::m_cas(&obs.after).0);
    problems.extend(world::m_keep(&obs.before, &obs.after, &sc.run.world.ever_targets).0);
    problems.extend(obs.online.clone());
    if problems.len() > 0
    {
        for v in problems { out.push(tag(v, "recovery-build", snap)); }
        return out;
    }

    // probe: the recovered state behaves like a healthy one
    let leaves : Vec<String> = obs.eval.leaves.iter().filter(|l| !obs.eval.missing_leaves.contains(*l)).cloned().collect();
    if leaves.len() > 0 && obs.verdict.is_ok()
    {
        let leaf = leaves[rng.below(leaves.len())].clone();
        let old = sc.run.world.sys.read_file(&leaf).unwrap_or(vec![]);
        if !old.starts_with(b"!")
        {
            let fresh = sc.run.world.fresh_content("probe");
            sc.run.world.sys.tick();
            sc.run.world.sys.user_write(&leaf, &fresh, false);
            let o1 = sc.run.world.invoke_build(None, &SchedChoice::serial());
            sc.run.world.sys.tick();
            sc.run.world.sys.user_write(&leaf, &old, false);
            let o2 = sc.run.world.invoke_build(None, &SchedChoice::serial());
            tally.counts.add("probe_builds", 2);
            for o in [&o1, &o2]
            {
                let mut p : Vec<Violation> = vec![];
                p.extend(world::m_live(o));
                p.extend(world::m_fail(o));
                if !sc.run.world.has_undeclared { p.extend(world::m_final(o).0); }
                p.extend(world::m_cas(&o.after).0);
                for (i, count) in o.ran.iter()
                {
                    if *count > 1 { p.push(Violation::new("C02", "command-ran-twice", format!("rule #{} ran {} times", i, count))); }
                }
                for v in p { out.push(tag(v, "probe", snap)); }
            }
        }
    }
    out
}

/*  C07 and C08 quantify over the crash points of C11 as well: the same kill instants, audited only for that property
    (cache names resp. content containment at the kill instant), reported under the property itself. */
fn audit_at_kill(prop : &str, sc : &Scenario, base : &Disk, snap : &Snapshot) -> Vec<Violation>
{
    let torn = match snap.torn { Some(k) => format!(" with the first {} bytes of it on disk", k), None => "".to_string() };
    let found = if prop == "C07" { world::m_cas(&snap.disk).0 } else { world::m_keep(base, &snap.disk, &sc.run.world.ever_targets).0 };
    found.into_iter().filter(|v| v.property == prop).map(|v| Violation::new(prop, &format!("at-kill:{}:{}", v.signature, classify_pending(&snap.pending)),
        format!("killed after {} mutations (next: {}{}): {}", snap.index, snap.pending, torn, v.what))).collect()
}

pub fn drive() { drive_prop("C11"); }

pub fn drive_prop(prop : &str)
{
    let params = Params::from_env("crash");
    let mut tally = Tally::new();
    let mut timed_out = false;
    for case in params.case_list()
    {
        if params.out_of_time() { timed_out = true; break; }
        let mut rng = params.case_rng(case);
        let mut sc = make_scenario(&mut rng, "C11", params.thorough());
        tally.cases_run += 1;
        tally.counts.inc(&format!("state:{}", sc.label));
        tally.counts.inc(&format!("interrupted:{}", match &sc.final_op { Final::Build(None) => "build-all", Final::Build(Some(_)) => "build-goal", Final::Clean(_) => "clean" }));
        let base = sc.run.world.sys.disk();
        let scenario_key = mix(sc.run.shape_hash, mix(fnv_str(&sc.run.world.ops.join(";")), case));

        // the interrupted invocation, recorded; serial schedule, and for every fourth scenario a random schedule too
        let schedules : Vec<SchedChoice> = if case % 4 == 3
        {
            vec![SchedChoice::serial(), SchedChoice { policy : Policy::Random, seed : rng.next_u64(), step_limit : 400_000, free : None }]
        }
        else { vec![SchedChoice::serial()] };

        let mut seen : BTreeSet<u64> = BTreeSet::new();
        let mut stop = false;
        for (si, choice) in schedules.iter().enumerate()
        {
            if stop { break; }
            sc.run.world.sys = VSys::from_disk(base.clone(), Clock::Distinct, mix(case, si as u64));
            {
                let mut fs = sc.run.world.sys.lock();
                fs.recording = true;
                fs.snapshots.clear();
                fs.mutations = 0;
            }
            let obs : Obs = match &sc.final_op
            {
                Final::Build(g) => sc.run.world.invoke_build(g.clone(), choice),
                Final::Clean(g) => sc.run.world.invoke_clean(g.clone(), choice),
            };
            let mut snapshots : Vec<Snapshot>;
            {
                let mut fs = sc.run.world.sys.lock();
                fs.recording = false;
                snapshots = std::mem::replace(&mut fs.snapshots, vec![]);
                let total = fs.mutations;
                let mut end = fs.disk.clone();
                end.gc();
                snapshots.push(Snapshot { index : total, pending : "end of invocation".to_string(), torn : None, disk : end });
            }
            if obs.report.step_exceeded { emit_inconclusive(&params, case, "scheduler step bound exceeded"); break; }
            tally.counts.add("mutations_in_interrupted_invocations", (snapshots.len() as u64).saturating_sub(1));

            for snap in snapshots.iter()
            {
                if params.out_of_time() { timed_out = true; break; }
                let h = disk_hash(&snap.disk);
                if !seen.insert(h)
                {
                    tally.counts.inc("snapshots_identical_to_an_earlier_one");
                    continue;
                }
                let key = mix(scenario_key, mix(snap.index as u64, mix(si as u64, snap.torn.map(|t| t as u64 + 1).unwrap_or(0))));
                tally.eval(key, snap.index >= 1);
                tally.counts.inc(&format!("kill-before:{}", classify_pending(&snap.pending)));
                if snap.torn.is_some() { tally.counts.inc("torn_write_snapshots"); }

                let found = if prop == "C11" { recover(&mut sc, &base, snap, &mut rng, &mut tally) } else { audit_at_kill(prop, &sc, &base, snap) };
                if found.len() > 0
                {
                    let detail = J::obj(vec![
                        ("graph_shape", J::s(&sc.run.graph_shape)),
                        ("initial_state", J::s(&sc.label)),
                        ("rules_file", J::Str(String::from_utf8_lossy(&base.read(world::RULES_FILE).cloned().unwrap_or(vec![])).to_string())),
                        ("preparation", J::strs(&sc.run.world.ops)),
                        ("interrupted_op", J::Str(format!("{:?}", sc.final_op))),
                        ("schedule", J::s(if si == 0 { "serial" } else { "random" })),
                        ("killed_after_mutations", J::i(snap.index)),
                        ("next_mutation", J::s(&snap.pending)),
                        ("torn_bytes", match snap.torn { Some(k) => J::i(k), None => J::Null }),
                        ("files_at_kill", J::Arr(snap.disk.files_under("").iter().map(|p| J::Str(format!("{} ({} bytes)", p, snap.disk.read(p).map(|b| b.len()).unwrap_or(0)))).collect())),
                    ]);
                    emit_violation(&params, &mut tally, case, &found[0], detail);
                    stop = true;
                    break;
                }
                if tally.wants_sample() && snap.index > 3
                {
                    tally.sample(J::obj(vec![
                        ("initial_state", J::s(&sc.label)),
                        ("preparation", J::strs(&sc.run.world.ops)),
                        ("interrupted_op", J::Str(format!("{:?}", sc.final_op))),
                        ("killed_after_mutations", J::i(snap.index)),
                        ("next_mutation", J::s(&snap.pending)),
                        ("torn_bytes", match snap.torn { Some(k) => J::i(k), None => J::Null }),
                        ("recovered", J::Bool(true)),
                    ]));
                }
            }
        }
    }
    tally.emit_summary(&params, timed_out);
}

#[test] #[ignore] fn crash_c11() { drive(); }
#[test] #[ignore] fn crash_c07() { drive_prop("C07"); }
#[test] #[ignore] fn crash_c08() { drive_prop("C08"); }
