#!/usr/bin/env python3
"""Regenerates MANIFEST.json from pytools/props.py and pytools/manifest_meta.py (kept in step with the checks that exist)."""
import json, sys, os
sys.path.insert(0, os.path.join(os.path.dirname(os.path.abspath(__file__)), "pytools"))
from props import PROPS
from manifest_meta import META, NOT_APPLICABLE, HOOK_COMMITS

checks = []
for pid in sorted(PROPS):
    m = META[pid]
    checks.append({
        "property_id": pid,
        "quick_cmd": "./check %s --tier quick" % pid,
        "thorough_cmd": "./check %s --tier thorough" % pid,
        "evidence_file": "evidence/%s.json" % pid,
        "replay_cmd_template": "./check %s --replay {path}" % pid,
        "engine": m["engine"],
        "level_claimed": {"category": PROPS[pid]["level"], "text": m["text"], "design_ref": "DESIGN.md section 4, " + pid},
        "level_note": m["note"],
        "technique": m["technique"],
    })
manifest = {
    "version": 1,
    "setup_cmd": "./setup.sh",
    "hooks": {
        "guard": "cargo feature 'verif' (off by default)",
        "enable": "CARGO_TARGET_DIR=/verif/target cargo test --manifest-path /repo/Cargo.toml --features verif --no-run --offline",
        "baseline_off_cmd": "cd /repo && cargo test --workspace --no-fail-fast --offline",
        "source_commits": HOOK_COMMITS,
        "add_only": True,
    },
    "engines": [
        {"name": "hist", "path": "harness/drivers/hist.rs", "serves_properties": ["C01", "C02", "C07", "C08", "C09", "C10", "C20"], "kind_free_text": "random histories on an instrumented in-memory System, monitors after every invocation"},
        {"name": "sched", "path": "harness/drivers/sched.rs", "serves_properties": ["C03", "C04", "C05", "C06"], "kind_free_text": "seeded cooperative scheduler under the real build()/clean(), many schedules per scenario, plus free-running stress"},
        {"name": "crash", "path": "harness/drivers/crash.rs", "serves_properties": ["C11"], "kind_free_text": "kill-point enumeration via disk snapshots before every mutation, recovery by the real build()"},
        {"name": "contra", "path": "harness/drivers/contra.rs", "serves_properties": ["C17"], "kind_free_text": "undeclared-input scenarios forcing re-execution"},
        {"name": "pair", "path": "harness/drivers/pair.rs", "serves_properties": ["C18"], "kind_free_text": "lock-step paired histories with/without the file-state table under two clock models"},
        {"name": "ident", "path": "harness/drivers/ident.rs", "serves_properties": ["C13"], "kind_free_text": "near-miss rule pairs"},
        {"name": "parse", "path": "harness/drivers/parse.rs", "serves_properties": ["C14"], "kind_free_text": "reference parser differential"},
        {"name": "hash", "path": "harness/drivers/hashd.rs", "serves_properties": ["C15"], "kind_free_text": "hash/codec differential with hashlib offline oracle"},
        {"name": "codec", "path": "harness/drivers/codec.rs", "serves_properties": ["C16"], "kind_free_text": "state-file round trip and damage injection"},
        {"name": "server", "path": "pytools/server_check.py", "serves_properties": ["C19"], "kind_free_text": "real binary `ruler serve` + raw-socket client"},
        {"name": "realfs", "path": "pytools/clean_real.py", "serves_properties": ["C10"], "kind_free_text": "real binary on the real file system with shell commands"},
        {"name": "strace", "path": "pytools/strace_twins.py", "serves_properties": ["C06"], "kind_free_text": "real binary under strace rename-delay injection"},
        {"name": "sort", "path": "harness/drivers/sortd.rs", "serves_properties": ["C12"], "kind_free_text": "exhaustive + random differential check of the sorter against a set-based reference"},
    ],
    "checks": checks,
    "not_applicable": NOT_APPLICABLE,
    "notes": "Runtime monitoring: the real build()/clean()/parser/sorter/codecs run under generated workloads while monitors observe System calls, channel sends, Printer calls and results. See DESIGN.md.",
}
json.dump(manifest, open(os.path.join(os.path.dirname(os.path.abspath(__file__)), "MANIFEST.json"), "w"), indent=1)
print("MANIFEST.json written with", len(checks), "checks;", len(NOT_APPLICABLE), "not_applicable")
