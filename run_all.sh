#!/bin/bash
# usage: run_all.sh <tier> <seed>...   -- runs every registered check at the given seeds, one line per run
tier=$1; shift
cd /verif
for seed in "$@"; do
  for p in C01 C02 C03 C04 C05 C06 C07 C08 C09 C10 C11 C12 C13 C14 C15 C16 C17 C18 C19 C20; do
    out=$(VERIF_SEED=$seed ./check $p --tier $tier 2>&1 | grep -v "^KNOWN-FINDING" | tail -3 | tr '\n' ' ' | cut -c1-400)
    echo "seed=$seed $p rc=$? :: $out"
  done
done
