"""Per-property check plans: stages (driver, cases per shard, wall-clock cap), evidence rule, floors, assumptions."""

COMMON_ASSUME = [
    "VSys (harness/vsys.rs) models the POSIX behaviour ruler can observe; commands are the deterministic 'vgen' language interpreted inside VSys",
    "the reference model (harness/model.rs) is the specification of a from-scratch build",
    "graphs <= 7 rules (12 thorough), histories <= 14 operations (40 thorough)",
]

def hist(name, test, quick_cases, thorough_cases, env=None, quick_ms=40000, thorough_ms=600000):
    return {"name": name, "test": test, "cases": {"quick": quick_cases, "thorough": thorough_cases},
            "budget_ms": {"quick": quick_ms, "thorough": thorough_ms}, "env": env or {}}

PROPS = {
    "C01": {
        "level": "exploration",
        "stages": [hist("hist", "hist::hist_c01", 600, 12000)],
        "rule": "case = one successful build inside a random history, judged byte-for-byte against the from-scratch model; distinct by (graph-shape hash, operation-kind sequence up to that build); non-trivial when the build was incremental (an earlier build succeeded) and the event log shows both a rule whose command did not run and a rule that ran or had a target restored from the cache",
        "floor": {"quick": 200, "thorough": 2000},
        "assumptions": COMMON_ASSUME + ["clock model A: every write takes a distinct modification time"],
    },
    "C02": {
        "level": "exploration",
        "stages": [hist("hist", "hist::hist_c02", 600, 12000)],
        "rule": "case = one asserted obligation (command ran at most once / rule up to date must not run / rule recoverable from the cache must not run / no-op rebuild touches nothing); distinct by (graph shape, obligation kind, history prefix); non-trivial for every kind except the plain at-most-once count",
        "floor": {"quick": 200, "thorough": 2000},
        "assumptions": COMMON_ASSUME + ["obligations come from the harness's own record of earlier successful executions, never from ruler's state files"],
    },
    "C07": {
        "level": "exploration",
        "stages": [hist("hist", "hist::hist_c07", 600, 12000)],
        "rule": "case = one audit of the cache directory after a build or clean (every entry re-hashed with the harness's own SHA-256/base-62); distinct by the set of entry names; non-trivial when the cache was not empty",
        "floor": {"quick": 200, "thorough": 2000},
        "assumptions": COMMON_ASSUME + ["clock model A"],
    },
    "C08": {
        "level": "exploration",
        "stages": [hist("hist", "hist::hist_c08", 600, 12000)],
        "rule": "case = one ruler invocation with content-set containment (ever-declared target paths + cache) checked before/after and every ruler-issued rename checked online; distinct by (graph shape, history prefix); non-trivial when ruler displaced at least one file into the cache",
        "floor": {"quick": 200, "thorough": 2000},
        "assumptions": COMMON_ASSUME + ["commands replace each output atomically and deterministically; a failing command writes nothing"],
    },
    "C09": {
        "level": "exploration",
        "stages": [hist("hist", "hist::hist_c09", 600, 12000)],
        "rule": "case = one invocation: every mutating System call issued by ruler is checked online against (in-scope targets + ruler directory) and every out-of-scope file is compared (bytes, mtime, exec) before/after; non-trivial when out-of-scope files existed and the scope was a strict subset of all targets or ruler renamed something",
        "floor": {"quick": 200, "thorough": 2000},
        "assumptions": COMMON_ASSUME,
    },
    "C10": {
        "level": "exploration",
        "stages": [hist("hist", "hist::hist_c10", 600, 12000)],
        "rule": "case = one clean followed by a build of the same scope after the scope had just been verified up to date by a successful build; distinct by (graph shape, history prefix); non-trivial when at least two targets were cleaned",
        "floor": {"quick": 100, "thorough": 1000},
        "assumptions": COMMON_ASSUME,
    },
    "C12": {
        "level": "exploration",
        "stages": [
            {"name": "exhaustive", "test": "sortd::sort_c12", "cases": {"quick": 0, "thorough": 0}, "budget_ms": {"quick": 120000, "thorough": 120000}, "env": {"VERIF_STAGE": "exhaustive"}},
            {"name": "random", "test": "sortd::sort_c12", "cases": {"quick": 1500, "thorough": 40000}, "budget_ms": {"quick": 40000, "thorough": 600000}, "env": {"VERIF_STAGE": "random"}},
            {"name": "five", "test": "sortd::sort_c12", "cases": {"quick": 0, "thorough": 0}, "budget_ms": {"quick": 0, "thorough": 3000000}, "env": {"VERIF_STAGE": "five"}, "tiers": ["thorough"]},
        ],
        "rule": "case = one sorter call judged against the set-based reference (validity, error kind and witness, reachable set, order, bindings, identity) plus a second call with the rules shuffled; exhaustive stage: every adjacency matrix incl. self-loops over named single-target rules a..d with build-all and every goal, and over two-target rules where each edge uses the first, the second or both targets (all bindings up to 3 rules, two random bindings per matrix at 4); random stage: graphs up to 40 rules with duplicates, cycles and self-dependence, distinct by canonical (named adjacency, goal); non-trivial when there are at least 2 rules",
        "floor": {"quick": 100000, "thorough": 1000000},
        "exhaustive_note": "all directed graphs (self-loops included) on <= 4 named single-target rules x {build-all, every goal}; thorough adds all graphs on 5 rules",
        "assumptions": ["rule target/source lists are given in the parser's canonical (sorted) order", "the reference in harness/drivers/sortd.rs is the specification"],
    },
    "C20": {
        "level": "exploration",
        "stages": [hist("hist", "hist::hist_c20", 600, 12000)],
        "rule": "case = one build whose recorded Printer calls are compared with the System-call log of the same build (Built <=> command ran, Recovered <=> moved in from the cache, Up-to-date <=> untouched, none for failed/cancelled rules); distinct by (graph shape, history prefix, schedule); non-trivial when at least two different banners were printed or a failure occurred",
        "floor": {"quick": 200, "thorough": 2000},
        "assumptions": COMMON_ASSUME,
    },
}
