"""Per-property check plans: stages (driver, cases per shard, wall-clock cap), evidence rule, floors, assumptions."""

COMMON_ASSUME = [
    "VSys (harness/vsys.rs) models the POSIX behaviour ruler can observe; commands are the deterministic 'vgen' language interpreted inside VSys",
    "the reference model (harness/model.rs) is the specification of a from-scratch build",
    "graphs <= 7 rules (12 thorough), histories <= 14 operations (40 thorough)",
]

def hist(name, test, quick_cases, thorough_cases, env=None, quick_ms=40000, thorough_ms=600000):
    return {"name": name, "test": test, "cases": {"quick": quick_cases, "thorough": thorough_cases},
            "budget_ms": {"quick": quick_ms, "thorough": thorough_ms}, "env": env or {}}

def sched(name, test, quick_cases, thorough_cases, schedules_quick=24, schedules_thorough=200, free=False, quick_ms=40000, thorough_ms=900000):
    env = {"VERIF_SCHEDULES": str(schedules_quick)}
    st = {"name": name, "test": test, "cases": {"quick": quick_cases, "thorough": thorough_cases},
          "budget_ms": {"quick": quick_ms, "thorough": thorough_ms}, "env": env,
          "env_thorough": {"VERIF_SCHEDULES": str(schedules_thorough)}}
    if free:
        env["VERIF_MODE"] = "free"
        st["pin"] = False
        # a free-running hang (a real deadlock of std threads) can only be ended by the wall-clock watchdog; it is
        # inconclusive by itself - the scheduler stage decides deadlocks logically
        st["watchdog_s"] = {"quick": 150, "thorough": 1800}
    return st

SCHED_ASSUME = [
    "the scheduler shim (harness/shim.rs) yields only at points where real threads can be preempted (thread start/finish, join, channel send/recv, every System call, every command step) and implements std's documented channel semantics",
    "graphs <= 6 rules (8 thorough) under the scheduler; schedules are sampled (uniform random walk, PCT with 1-3 priority changes, serial with 1-4 preemptions), not enumerated",
    "the free-running stage uses std threads/channels unchanged, with random jitter at System calls",
]

PROPS = {
    "C01": {
        "level": "exploration",
        "stages": [hist("hist", "hist::hist_c01", 500, 12000)],
        "rule": "case = one successful build inside a random history, judged byte-for-byte against the from-scratch model; distinct by (graph-shape hash, operation-kind sequence up to that build); non-trivial when the build was incremental (an earlier build succeeded) and the event log shows both a rule whose command did not run and a rule that ran or had a target restored from the cache",
        "floor": {"quick": 200, "thorough": 2000},
        "assumptions": COMMON_ASSUME + ["clock model A: every write takes a distinct modification time"],
    },
    "C02": {
        "level": "exploration",
        "stages": [hist("hist", "hist::hist_c02", 600, 12000)],
        "rule": "case = one asserted obligation (command ran at most once / rule up to date must not run / rule recoverable from the cache must not run / no-op rebuild touches nothing); distinct by (graph shape, obligation kind, history prefix); non-trivial for every kind except the plain at-most-once count",
        "floor": {"quick": 200, "thorough": 2000},
        "assumptions": COMMON_ASSUME + ["obligations come from the harness's own record of earlier successful executions, never from ruler's state files"],
    },
    "C07": {
        "level": "exploration",
        "stages": [hist("hist", "hist::hist_c07", 600, 12000),
                   sched("sched", "sched::sched_c07", 60, 500, schedules_quick=16, schedules_thorough=100, thorough_ms=400000),
                   hist("crash", "crash::crash_c07", 60, 2500, quick_ms=30000, thorough_ms=300000)],
        "rule": "case = one audit of the cache directory after a build or clean (every entry re-hashed with the harness's own SHA-256/base-62); distinct by the set of entry names; non-trivial when the cache was not empty; stage sched: the same audit after the final invocation of a scenario under explored schedules (distinct by interleaving); stage crash: the same audit on the disk at every kill point of an interrupted invocation (C11's enumeration, torn writes included)",
        "floor": {"quick": 200, "thorough": 2000},
        "assumptions": COMMON_ASSUME + ["clock model A"],
    },
    "C08": {
        "level": "exploration",
        "stages": [hist("hist", "hist::hist_c08", 600, 12000),
                   sched("sched", "sched::sched_c08", 60, 500, schedules_quick=16, schedules_thorough=100, thorough_ms=400000),
                   hist("crash", "crash::crash_c08", 60, 2500, quick_ms=30000, thorough_ms=300000)],
        "rule": "case = one ruler invocation with content-set containment (ever-declared target paths + cache) checked before/after and every ruler-issued rename checked online; distinct by (graph shape, history prefix); non-trivial when ruler displaced at least one file into the cache; stage sched: the same containment check under explored schedules (distinct by interleaving); stage crash: containment of the disk at every kill point of an interrupted invocation against the disk before it (C11's enumeration)",
        "floor": {"quick": 200, "thorough": 2000},
        "assumptions": COMMON_ASSUME + ["commands replace each output atomically and deterministically; a failing command writes nothing"],
    },
    "C09": {
        "level": "exploration",
        "stages": [hist("hist", "hist::hist_c09", 600, 12000)],
        "rule": "case = one invocation: every mutating System call issued by ruler is checked online against (in-scope targets + ruler directory) and every out-of-scope file is compared (bytes, mtime, exec) before/after; non-trivial when out-of-scope files existed and the scope was a strict subset of all targets or ruler renamed something",
        "floor": {"quick": 200, "thorough": 2000},
        "assumptions": COMMON_ASSUME,
    },
    "C10": {
        "level": "exploration",
        "needs_plain_binary": True,
        "stages": [hist("hist", "hist::hist_c10", 600, 12000),
                   {"name": "realfs", "kind": "python", "module": "clean_real", "cases": {"quick": 48, "thorough": 500}},
                   {"name": "memcheck", "kind": "python", "module": "clean_real", "cases": {"quick": 0, "thorough": 16}, "tiers": ["thorough"],
                    "wrapper": ["valgrind", "-q", "--error-exitcode=99"]}],
        "rule": "case = one clean followed by a build of the same scope after the scope had just been verified up to date by a successful build, on the in-memory System inside random histories and (stage realfs) with the built ruler binary, shell commands and the real file system (listing, bytes, permission bits, status lines); distinct by (graph shape, history prefix) resp. (seed, case, round); non-trivial when at least two targets were cleaned",
        "floor": {"quick": 100, "thorough": 1000},
        "assumptions": COMMON_ASSUME,
    },
    "C12": {
        "level": "exploration",
        "stages": [
            {"name": "exhaustive", "test": "sortd::sort_c12", "cases": {"quick": 0, "thorough": 0}, "budget_ms": {"quick": 120000, "thorough": 120000}, "env": {"VERIF_STAGE": "exhaustive"}},
            {"name": "random", "test": "sortd::sort_c12", "cases": {"quick": 1500, "thorough": 40000}, "budget_ms": {"quick": 40000, "thorough": 600000}, "env": {"VERIF_STAGE": "random"}},
            {"name": "five", "test": "sortd::sort_c12", "cases": {"quick": 0, "thorough": 0}, "budget_ms": {"quick": 0, "thorough": 3000000}, "env": {"VERIF_STAGE": "five"}, "tiers": ["thorough"]},
        ],
        "rule": "case = one sorter call judged against the set-based reference (validity, error kind and witness, reachable set, order, bindings, identity) plus a second call with the rules shuffled; exhaustive stage: every adjacency matrix incl. self-loops over named single-target rules a..d with build-all and every goal, and over two-target rules where each edge uses the first, the second or both targets (all bindings up to 3 rules, two random bindings per matrix at 4); random stage: graphs up to 40 rules with duplicates, cycles and self-dependence, distinct by canonical (named adjacency, goal); non-trivial when there are at least 2 rules",
        "floor": {"quick": 100000, "thorough": 1000000},
        "exhaustive_note": "all directed graphs (self-loops included) on <= 4 named single-target rules x {build-all, every goal}; thorough adds all graphs on 5 rules",
        "assumptions": ["rule target/source lists have no repeated entries (the parser merges them); they are given sorted, reversed or shuffled, since the parser's canonical order (bundle depth-first) is not always string order", "the reference in harness/drivers/sortd.rs is the specification"],
    },
    "C20": {
        "level": "exploration",
        "stages": [hist("hist", "hist::hist_c20", 600, 12000),
                   sched("sched", "sched::sched_c20", 60, 500, schedules_quick=16, schedules_thorough=100, thorough_ms=400000)],
        "rule": "case = one build whose recorded Printer calls are compared with the System-call log of the same build (Built <=> command ran, Recovered <=> moved in from the cache, Up-to-date <=> untouched, none for failed/cancelled rules); distinct by (graph shape, history prefix, schedule); non-trivial when at least two different banners were printed or a failure occurred; stage sched: the same comparison for the final build of a scenario under explored schedules (scheduler choice list as identity)",
        "floor": {"quick": 200, "thorough": 2000},
        "assumptions": COMMON_ASSUME,
    },
    "C03": {
        "level": "exploration",
        "stages": [sched("sched", "sched::sched_c03", 150, 1500), sched("free", "sched::sched_c03", 40, 600, schedules_quick=10, schedules_thorough=30, free=True)],
        "rule": "case = one execution of a scenario's final build under one schedule; inside it every command start is checked online (each declared source holds exactly the bytes the reference model assigns) and every ticket handed to a dependent is compared with the true hash of the producing file at that instant and of its final content; distinct by (scenario, interleaving identity = scheduler choice list, or observed thread order of System calls when free-running); non-trivial when a command with a produced source ran and at least one scheduling decision had >= 2 runnable threads",
        "floor": {"quick": 500, "thorough": 20000},
        "assumptions": COMMON_ASSUME + SCHED_ASSUME,
    },
    "C04": {
        "level": "exploration",
        "stages": [sched("sched", "sched::sched_c04", 150, 1500), sched("free", "sched::sched_c04", 40, 600, schedules_quick=10, schedules_thorough=30, free=True), hist("hist", "hist::hist_c04", 250, 6000)],
        "rule": "case = one execution of a build with injected failures (command exits non-zero, command skips a declared target, unknown program, missing leaf; 1-3 per scenario) under one schedule, or one build of a failure-biased random history; verdict and error list are compared with the model's failing set, cancelled rules must not run (online), independent rules must be correct, repeated and repaired builds are judged again; distinct by (scenario or history prefix, interleaving identity); non-trivial when at least one rule/leaf fails and an independent rule had work to do",
        "floor": {"quick": 300, "thorough": 10000},
        "assumptions": COMMON_ASSUME + SCHED_ASSUME,
    },
    "C05": {
        "level": "exploration",
        "stages": [sched("sched", "sched::sched_c05", 150, 1500), sched("free", "sched::sched_c05", 40, 600, schedules_quick=10, schedules_thorough=30, free=True), hist("hist", "hist::hist_c05", 250, 6000)],
        "rule": "case = one execution of build or clean under one schedule; deadlock is decided logically by the scheduler (no runnable thread), a run that has not finished after 400 000 scheduler steps (the serial run takes a few hundred) is a loop that does not end, panics are caught at thread and call boundaries, SenderError/ReceiverError/Weird results are violations; scenarios include states in which a state file was damaged by hand and in which the directories of cleaned targets were removed; distinct by (scenario, interleaving identity); non-trivial when at least 3 logical threads existed",
        "floor": {"quick": 1000, "thorough": 30000},
        "assumptions": COMMON_ASSUME + SCHED_ASSUME + ["free-running hangs would only be seen as a watchdog timeout (inconclusive); the logical decision is made in scheduler mode"],
    },
    "C06": {
        "level": "exploration",
        "needs_plain_binary": True,
        "stages": [sched("sched", "sched::sched_c06", 150, 1500, schedules_quick=30, schedules_thorough=300), sched("free", "sched::sched_c06", 40, 600, schedules_quick=15, schedules_thorough=40, free=True),
                   {"name": "strace", "kind": "python", "module": "strace_twins", "cases": {"quick": 12, "thorough": 60}, "reps": {"quick": 5, "thorough": 20}}],
        "rule": "case = one scenario (graph + prepared state, biased to cleaned byte-identical twins) whose final build is executed under many schedules from the same snapshot; verdict and all workspace bytes must agree across schedules; distinct by scenario; non-trivial when >= 2 distinct interleavings were compared and >= 2 threads performed cache operations",
        "floor": {"quick": 50, "thorough": 1000},
        "assumptions": COMMON_ASSUME + SCHED_ASSUME,
    },
    "C11": {
        "level": "fault_enumeration",
        "stages": [hist("crash", "crash::crash_c11", 40, 2500, quick_ms=45000, thorough_ms=1500000)],
        "rule": "case = one kill point: a snapshot of the disk taken before a mutation (create, each write plus torn variants with 1, n/2, n-1 bytes of it, rename, permission change, each command output) of an interrupted build/clean, audited (cache names, content containment) and recovered from (build-all must succeed and equal the from-scratch model; then edit/build/revert/build probe). Within one interrupted invocation the enumeration of kill points is complete; scenarios (graph, prior history, interrupted operation, schedule) are sampled. Distinct by (scenario, mutation index, schedule, torn length); snapshots whose disk equals an earlier one of the same scenario are skipped; non-trivial when at least one mutation had completed",
        "floor": {"quick": 1000, "thorough": 20000},
        "assumptions": COMMON_ASSUME + ["a kill loses no completed system call (no power-loss reordering); a write in flight may be torn at byte granularity; commands replace each output atomically"],
    },
    "C17": {
        "level": "exploration",
        "stages": [hist("contra", "contra::contra_c17", 1200, 12000)],
        "rule": "case = one forced re-execution of a rule on byte-identical declared sources after its undeclared input changed (every subset of the rule's outputs, the empty one included, can depend on that input); the build must report one contradiction naming exactly the differing targets, keep the decoded record equal, leave independent rules right and reproduce the old outputs once the input is restored; distinct by (graph shape, subset, case); non-trivial when the command really re-ran and at least one output depends on the undeclared input",
        "floor": {"quick": 50, "thorough": 1000},
        "assumptions": COMMON_ASSUME,
    },
    "C18": {
        "level": "exploration",
        "stages": [hist("pair", "pair::pair_c18", 400, 5000)],
        "rule": "case = one history run in lock step on two identical workspaces, one as is and one with the file-state table erased before every build, alternating between the two clock models (every write distinct / one tick per user action or invocation); verdict and all workspace bytes compared after every build, every hash handed to a dependent compared with the file's true hash; distinct by (graph shape, history, clock model); non-trivial when some build restored at least one file from the cache",
        "floor": {"quick": 100, "thorough": 2000},
        "assumptions": COMMON_ASSUME + ["user actions and invocations are separated by at least one clock tick in both clock models"],
    },
    "C13": {
        "level": "exploration",
        "stages": [hist("ident", "ident::ident_c13", 12000, 400000),
                   dict(hist("universe", "ident::ident_c13", 0, 0, env={"VERIF_STAGE": "universe"}, quick_ms=120000, thorough_ms=120000), shards=1)],
        "rule": "case = one pair of parser-producible rules (a base rule over an adversarial string pool and a near-miss of it: permuted lists, a string moved across a section boundary, split/merged/swapped/sorted/duplicated command lines, added/removed/renamed path, or an independent rule); identity equality must coincide with equality of (target set, source set, command list), on the in-memory rules and again after rendering both (flat or bundled) and parsing with the real parser; stage universe: all 93 312 rules with 1-2 targets, 1-2 sources and 1-2 command lines over eight strings chosen to confuse a serialisation (':' in front, behind, doubled; one string that is two others back to back; a leading space) must have pairwise different identities; distinct by the pair; non-trivial for every near-miss pair",
        "floor": {"quick": 10000, "thorough": 200000},
        "assumptions": ["SHA-256 collisions aside", "rules are parser-producible: no repeated entry and no file/directory clash inside a section, no empty or ':' lines"],
    },
    "C14": {
        "level": "exploration",
        "stages": [hist("parse", "parse::parse_c14", 20000, 600000),
                   {"name": "miri", "kind": "miri", "test": "parse::parse_c14", "cases": {"quick": 0, "thorough": 40}, "tiers": ["thorough"], "shards": 8}],
        "rule": "case = one text given to the real parser under catch_unwind and to the reference reading (harness/drivers/parse.rs): rendered random rule sets under all formatting choices, single and double corruptions (deleted line, inserted blank line or ':', duplicated ':', truncation with/without newline, extra indentation, file/directory clash, tabs-only line), token soup, line soup, bundles nested up to 60 levels, 3000-token soup; every fifth case also goes through parse_all with a second file; distinct by text; non-trivial when the text has at least one complete section",
        "floor": {"quick": 10000, "thorough": 300000},
        "assumptions": ["the reference reading in harness/drivers/parse.rs is the documented format", "bundle nesting <= 60 levels, inputs <= ~10 KB"],
    },
    "C15": {
        "level": "exploration",
        "needs_plain_binary": True,
        "stages": [hist("hash", "hashd::hash_c15", 150, 2000),
                   {"name": "hashlib", "kind": "python", "module": "offline_oracles", "oracle": "hash", "source_stage": "hash"},
                   {"name": "cli", "kind": "python", "module": "hash_cli", "cases": {"quick": 24, "thorough": 400}},
                   {"name": "miri", "kind": "miri", "test": "hashd::hash_c15", "cases": {"quick": 0, "thorough": 8}, "tiers": ["thorough"], "shards": 4, "env": {"VERIF_NOHASH": "1"}}],
        "rule": "case = one file content hashed by ruler through short-read handles at several paths/ages (every length 0..1100, boundary and random lengths up to 300 KB / 1.1 MB), one 256-bit value round trip (edge values, 62^k and neighbours, leading-zero digits, random), one string offered to the decoder (every length 0..60, foreign characters, the 200 smallest values above 2^256-1, random 43-character strings judged by a reference decoder), or one directory tree with a single-point change; the exported cases are re-checked with Python hashlib; the `cli` stage runs the built binary's `ruler hash` on real files (sizes around the read buffer and page size, a second copy at another path with an old modification time) against hashlib, and on real directory trees (stable, changes with every single-point change including empty sub-directories, returns after undo); distinct by value",
        "floor": {"quick": 2000, "thorough": 20000},
        "assumptions": ["oracle: Python hashlib.sha256 and an independent base-62 implementation (pytools/bincode_reader.py), plus the harness's own SHA-256 in-process"],
    },
    "C16": {
        "level": "exploration",
        "stages": [dict(hist("codec", "codec::codec_c16", 14, 200), crash_is_violation=True, rlimit_as_gb=8),
                   {"name": "layout", "kind": "python", "module": "offline_oracles", "oracle": "layout", "source_stage": "codec"},
                   {"name": "miri", "kind": "miri", "test": "codec::codec_c16", "cases": {"quick": 0, "thorough": 2}, "tiers": ["thorough"], "shards": 8, "env": {"VERIF_MAX_FLIPS": "48", "VERIF_PREFIX_STEP": "5", "VERIF_NOHASH": "1"}}],
        "rule": "case = one (state-file instance, damage) pair: write/read round trip through ruler's own writer and reader on a fresh handle, every strict prefix, single bit flips (every position of small images), random byte strings; a panic or a process abort is a violation, an accepted prefix is a violation; exported images are decoded by an independent bincode reader; distinct by (image, damage)",
        "floor": {"quick": 10000, "thorough": 200000},
        "assumptions": ["instances: 0..50 entries, 1..8 targets; hashes are arbitrary 256-bit values made through the text form"],
    },
    "C19": {
        "level": "exploration",
        "needs_plain_binary": True,
        "stages": [{"name": "server", "kind": "python", "module": "server_check", "cases": {"quick": 32, "thorough": 300}}],
        "rule": "case = one HTTP request sent over a raw socket to `ruler serve` running on a ruler directory produced by a random real-file-system history; classes: every cached hash (200 + exact bytes + SHA-256 of the body re-encodes to the name), absent valid hashes (404), cache entries that are directories (a directory that sat at a target path and was displaced into the cache: 404), every recorded (rule, sources) pair decoded from the history files by the independent bincode reader (200 + hashes in target order, each the hash of a content seen at that target), unknown pairs (404), ~70 malformed/hostile request targets per directory (404, or 400 for byte strings that are not a valid request target; never a body equal to a file outside cache/history; a 200 only when the target names a cached hash), liveness probe; distinct by (directory, class, index); non-trivial when the directory has at least one cache entry and one history entry",
        "floor": {"quick": 200, "thorough": 2000},
        "assumptions": ["only GET is judged", "the HTTP layer may answer 400 to byte strings that are not a valid request target (raw NUL, space, non-ASCII)", "a trailing '/' or a query after a cached hash addresses the same resource"],
    },
}
