"""Offline checkers over the JSON-lines files written by the Rust drivers.

run(ctx) is called by ./check for stages of kind "python"; it returns (records, problems) where records use the
same shapes as the Rust drivers ("summary", "violation")."""
import os, glob, json, hashlib
import bincode_reader as br

def _records(outdir, source_stage):
    for path in sorted(glob.glob(os.path.join(outdir, "%s-shard*.jsonl" % source_stage))):
        with open(path) as f:
            for line in f:
                line = line.strip()
                if line.startswith("{"):
                    try:
                        yield json.loads(line)
                    except Exception:
                        pass

def _violation(prop, signature, what, detail=None):
    return {"type": "violation", "property": prop, "signature": signature, "what": what,
            "replay": {"driver": "offline", "prop": prop, "seed": 0, "shard": 0, "shards": 1, "tier": "quick", "case": 0},
            "detail": detail or {}}

def run(ctx):
    stage = ctx["stage"]
    kind = stage["oracle"]
    prop = ctx["prop"]
    recs = []
    n = 0
    keys = set()
    counts = {}
    samples = []
    for r in _records(ctx["outdir"], stage["source_stage"]):
        t = r.get("type")
        if kind == "hash" and t == "hashcase":
            data = bytes.fromhex(r["bytes_hex"])
            truth = br.base62(hashlib.sha256(data).digest())
            n += 1
            keys.add(hashlib.md5(data).hexdigest())
            counts["hashlib_comparisons"] = counts.get("hashlib_comparisons", 0) + 1
            if r["ruler_text"] != truth:
                recs.append(_violation(prop, "hash-is-not-sha256:hashlib", "ruler hashed %d bytes to %s; hashlib.sha256 in base-62 is %s" % (len(data), r["ruler_text"], truth), {"bytes_hex": r["bytes_hex"][:400]}))
            elif len(samples) < 2:
                samples.append({"bytes": len(data), "ruler": r["ruler_text"], "hashlib_base62": truth})
        elif kind == "hash" and t == "codeccase":
            raw = bytes.fromhex(r["value_hex"])
            n += 1
            keys.add(r["value_hex"])
            counts["base62_comparisons"] = counts.get("base62_comparisons", 0) + 1
            mine = br.base62(raw)
            if mine != r["text"] or br.unbase62(r["text"]) != raw:
                recs.append(_violation(prop, "harness-base62-disagrees-with-python", "value %s: harness text %s, python text %s" % (r["value_hex"], r["text"], mine)))
        elif kind == "layout" and t in ("historyfile", "tablefile"):
            data = bytes.fromhex(r["image_hex"])
            n += 1
            keys.add(hashlib.md5(data).hexdigest())
            try:
                if t == "historyfile":
                    got = br.read_rule_history(data)
                    want = {e["source"]: e["targets"] for e in r["entries"]}
                    counts["history_images_decoded"] = counts.get("history_images_decoded", 0) + 1
                else:
                    got = br.read_file_states(data)
                    want = {e["path"]: {"hash": e["hash"], "timestamp": int(e["timestamp"]), "executable": e["executable"]} for e in r["entries"]}
                    counts["table_images_decoded"] = counts.get("table_images_decoded", 0) + 1
                if got != want:
                    recs.append(_violation(prop, "layout-differs", "independent decoding of a %s gives %r, ruler had written %r" % (t, str(got)[:300], str(want)[:300])))
                elif len(samples) < 2:
                    samples.append({"kind": t, "bytes": len(data), "entries": len(want)})
            except br.Malformed as e:
                recs.append(_violation(prop, "layout-undecodable", "a %s written by ruler is not in the documented layout: %s" % (t, e), {"image_hex": r["image_hex"][:400]}))
    recs.append({"type": "summary", "driver": "offline:" + kind, "prop": prop, "shard": 0, "cases_run": n, "evaluations": n, "nontrivial": n,
                 "keys": sorted(keys)[:200000], "counts": counts, "samples": samples, "violations": sum(1 for x in recs if x["type"] == "violation"),
                 "stopped_by_time_cap": False, "wall_ms": 0})
    problems = []
    if n == 0:
        problems.append("offline oracle %s found no exported cases" % kind)
    return recs, problems

def replay(ctx):
    print("offline oracle violations are replayed by re-running the check (deterministic given the seed)")
    return 1
