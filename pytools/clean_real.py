"""C10 on the real binary and the real file system: build, clean [goal], build [goal] with shell commands."""
import os, random, time, json
from concurrent.futures import ThreadPoolExecutor
import realfs

def one_case(ctx, case):
    seed = ctx["seed"]
    rng = random.Random(seed * 100003 + case)
    rules = realfs.random_graph(rng, 6)
    recs = []
    stats = {"evaluations": 0, "nontrivial": 0, "keys": [], "sample": None, "problems": []}
    ws = realfs.Workspace("c10-%s%d-%d" % ("vg-" if ctx.get("wrapper") else "", seed, case), ctx["plain"])
    wrapper = ctx.get("wrapper")
    if wrapper:
        plain_run = ws.run
        def wrapped(*args, **kw):
            r = plain_run(*args, wrapper=wrapper, timeout=600)
            if r["rc"] == 99:
                stats["memcheck_errors"] = stats.get("memcheck_errors", 0) + 1
                stats["memcheck_report"] = r["err"][-1500:]
                r["err"] = ""
            stats["memcheck_runs"] = stats.get("memcheck_runs", 0) + 1
            return r
        ws.run = wrapped
    def bad(sig, what, extra=None):
        d = {"rules_file": "\n".join(r.text() for r in rules), "steps": steps}
        d.update(extra or {})
        recs.append(realfs.violation("C10", "real-fs:" + sig, what, d, case, seed, "clean_real"))
    steps = []
    try:
        produced = {t for r in rules for t in r.targets}
        leaves = sorted({s for r in rules for s in r.sources if s not in produced})
        for l in leaves:
            ws.write(l, ws.fresh(l.replace("/", "_")))
        ws.write_rules(rules)
        rounds = rng.choice([1, 1, 2])
        for rnd in range(rounds):
            if rnd > 0:
                l = rng.choice(leaves)
                ws.write(l, ws.fresh("edit"))
                steps.append("edit %s" % l)
            b0 = ws.run("build")
            steps.append("build -> %s %s" % (b0["banners"], b0["err"].strip()[:200]))
            files = ws.files()
            expected, _ = realfs.evaluate(rules, files)
            if b0["err"].strip() or any(ws.read(t) != v for t, v in expected.items()):
                stats["problems"].append("case %d: the preparatory build did not produce the expected targets (%s)" % (case, b0["err"].strip()[:200]))
                return recs, stats
            all_targets = sorted(expected)
            goal = rng.choice(all_targets) if rng.random() < 0.5 else None
            scope_contents, scope = realfs.evaluate(rules, files, goal)
            in_scope = sorted(scope_contents)
            before = {t: (ws.read(t), ws.is_exec(t)) for t in in_scope}
            outside_before = {p: v for p, v in ws.files().items() if p not in in_scope}

            c = ws.run(*(["clean"] + ([goal] if goal else [])))
            steps.append("clean %s -> %s" % (goal, c["err"].strip()[:200]))
            if c["err"].strip():
                bad("clean-failed", "clean printed an error: %s" % c["err"].strip()[:300])
                return recs, stats
            cache = ws.cache()
            for t in in_scope:
                if ws.read(t) is not None:
                    bad("target-survived-clean", "target %s still exists after clean %s" % (t, goal))
                if realfs.hash_name(before[t][0]) not in cache or cache[realfs.hash_name(before[t][0])] != before[t][0]:
                    bad("cleaned-content-not-cached", "the content of %s is not in the cache under its hash name after clean" % t)
            outside_after = {p: v for p, v in ws.files().items() if p not in in_scope}
            if outside_after != outside_before:
                bad("clean-touched-other-files", "files outside the cleaned scope changed: %s" % sorted(set(outside_before) ^ set(outside_after) | {p for p in outside_before if outside_after.get(p) != outside_before[p]}))

            b = ws.run(*(["build"] + ([goal] if goal else [])))
            steps.append("build %s -> %s %s" % (goal, b["banners"], b["err"].strip()[:200]))
            stats["evaluations"] += 1
            if len(in_scope) >= 2:
                stats["nontrivial"] += 1
                stats["keys"].append("%d:%d:%d" % (seed, case, rnd))
            if b["err"].strip():
                bad("build-after-clean-failed", "the build after clean printed: %s" % b["err"].strip()[:300])
                return recs, stats
            for t in in_scope:
                now = (ws.read(t), ws.is_exec(t))
                if now != before[t]:
                    bad("target-not-restored-identically", "after clean+build %s is %r (exec=%s) instead of %r (exec=%s)" % (t, (now[0] or b"")[:60], now[1], before[t][0][:60], before[t][1]))
                kinds = [k for k, p in b["banners"] if p == t]
                if kinds != ["Recovered"]:
                    bad("not-recovered-from-cache", "target %s was reported %s after clean+build; all cleaned contents were pairwise distinct, so it should have been recovered without running a command" % (t, kinds))
            if stats["sample"] is None:
                stats["sample"] = {"rules_file": "\n".join(r.text() for r in rules)[:600], "steps": list(steps)}
            if recs:
                return recs, stats
    except Exception as e:
        stats["problems"].append("case %d: driver error %r" % (case, e))
    finally:
        ws.close()
    return recs, stats

def run(ctx):
    n = ctx["stage"]["cases"][ctx["tier"]]
    if ctx["stage"].get("wrapper"):
        ctx = dict(ctx, wrapper=ctx["stage"]["wrapper"])
    t0 = time.time()
    mem_runs = mem_errors = 0
    mem_report = None
    recs, problems, keys, samples = [], [], [], []
    ev = nt = 0
    with ThreadPoolExecutor(max_workers=ctx["nproc"]) as pool:
        for r, st in pool.map(lambda c: one_case(ctx, c), range(n)):
            recs += r
            problems += st["problems"]
            ev += st["evaluations"]; nt += st["nontrivial"]; keys += st["keys"]
            mem_runs += st.get("memcheck_runs", 0); mem_errors += st.get("memcheck_errors", 0)
            mem_report = mem_report or st.get("memcheck_report")
            if st["sample"] and len(samples) < 2:
                samples.append(st["sample"])
    counts = {"real_fs_clean_build_pairs": ev}
    if ctx.get("wrapper"):
        # supplementary, informational: valgrind memcheck on the real binary; none of the 20 properties is a memory-safety
        # property, so a report is recorded in the evidence and printed, not turned into a verdict
        counts = {"memcheck_real_binary_runs": mem_runs, "memcheck_runs_with_error_reports": mem_errors, "memcheck_clean_build_pairs": ev}
        if mem_report:
            print("NOTE: valgrind memcheck reported errors on the real binary (informational):", mem_report[-600:], flush=True)
        keys = ["vg:" + k for k in keys]
    recs.append({"type": "summary", "driver": "clean_real", "prop": "C10", "shard": 0, "cases_run": n, "evaluations": ev, "nontrivial": nt,
                 "keys": keys, "counts": counts, "samples": samples,
                 "violations": sum(1 for x in recs if x["type"] == "violation"), "stopped_by_time_cap": False, "wall_ms": int((time.time() - t0) * 1000)})
    if len(problems) > max(2, n // 10):
        return recs, problems[:3]
    return recs, []

def replay(ctx):
    v = ctx["violation"]
    c = dict(seed=v["replay"]["seed"], plain=ctx["plain"])
    recs, st = one_case(c, v["replay"]["case"])
    for r in recs:
        print("REPLAYED:", r["signature"], "-", r["what"])
        print(json.dumps(r["detail"], indent=1)[:3000])
    if recs:
        print("VIOLATION property=C10 replay=(see above)")
        return 1
    print("replay did not reproduce")
    return 0
