"""C19: `ruler serve` on loopback vs an independent view of the ruler directory.

For each of N real-file-system histories (build, edit, build, clean, ...), the server is started on a free port and
asked, over raw sockets, for every cache entry, for absent but valid-looking hashes, for every recorded
(rule, sources) pair (decoded from the history files by the independent bincode reader), for unknown pairs and for
malformed / hostile request targets.  The oracle never consults ruler: bytes are compared with the files on disk,
hashes are recomputed with hashlib."""
import os, random, socket, subprocess, time, json, hashlib
from concurrent.futures import ThreadPoolExecutor
import realfs
import bincode_reader as br

def free_port():
    s = socket.socket()
    s.bind(("127.0.0.1", 0))
    p = s.getsockname()[1]
    s.close()
    return p

class NoResponse(Exception):
    """the server did not answer within the (generous) wall-clock allowance: says nothing about the property"""

def http_get(port, target, timeout=10):
    """send a raw GET request line (target verbatim, bytes); returns (status or None, body bytes).
    A silent server is never turned into a verdict here: on a loaded machine an answer can take long, so a time-out is
    retried with 30 s and 120 s, and if nothing at all arrives NoResponse is raised (the caller reports the case as
    inconclusive unless the server process has exited)."""
    if isinstance(target, str):
        target = target.encode("utf-8", "surrogateescape")
    data = b""
    for attempt_timeout in (timeout, 30, 120):
        data = b""
        timed_out = False
        try:
            s = socket.create_connection(("127.0.0.1", port), timeout=attempt_timeout)
        except (socket.timeout, ConnectionRefusedError, OSError):
            timed_out = True
            s = None
        if s is not None:
            try:
                s.sendall(b"GET " + target + b" HTTP/1.1\r\nHost: localhost\r\nConnection: close\r\n\r\n")
                while True:
                    chunk = s.recv(65536)
                    if not chunk:
                        break
                    data += chunk
            except socket.timeout:
                timed_out = True
            except ConnectionError:
                pass
            finally:
                s.close()
        if not (timed_out and not data.startswith(b"HTTP/")):
            break
    else:
        raise NoResponse("no answer to %r within 10 + 30 + 120 s" % target[:80])
    if not data.startswith(b"HTTP/"):
        return None, data
    head, _, body = data.partition(b"\r\n\r\n")
    try:
        status = int(head.split(b" ")[1])
    except Exception:
        return None, data
    headers = head.decode("latin-1").lower()
    if "transfer-encoding: chunked" in headers:
        out = b""
        rest = body
        while rest:
            line, _, rest = rest.partition(b"\r\n")
            try:
                n = int(line.strip() or b"0", 16)
            except ValueError:
                break
            if n == 0:
                break
            out += rest[:n]
            rest = rest[n + 2:]
        body = out
    return status, body

VALID_URI_BYTES = set(b"abcdefghijklmnopqrstuvwxyzABCDEFGHIJKLMNOPQRSTUVWXYZ0123456789-._~:/?#[]@!$&'()*+,;=%")

def alias_names(name):
    """43-character strings that are NOT base-62 (they contain one character outside 0-9a-zA-Z) but would decode to the same
    value as `name` if a decoder extended one of its three character ranges past its end (the characters after '9',
    after 'z' or after 'Z' taken as further digits, the excess carried into the next position)"""
    A = br.ALPHABET
    out = []
    digits = [A.index(c) for c in name]
    for start_char, first_value in ((":", 10), ("{", 36), ("[", 62)):
        for k in range(4):
            c = chr(ord(start_char) + k)
            v = first_value + k          # the value such a decoder would give this character
            for i in range(42):
                # digit i becomes v - 62*carry ... we need digits[i] + 62 * 1 == v + 62 * 0 is impossible for v < 62;
                # general: v = digits[i] + 62 * borrow, with the next digit reduced by borrow
                borrow, rest = divmod(v - digits[i], 62)
                if rest != 0 or borrow < 0 or digits[i + 1] - borrow < 0:
                    continue
                if borrow == 0:
                    continue
                alias = list(name)
                alias[i] = c
                alias[i + 1] = A[digits[i + 1] - borrow]
                out.append("".join(alias))
                break
    # same-value aliases without carry exist when a foreign character is given the value of the digit it replaces
    for start_char, first_value in ((":", 10), ("{", 36)):
        for k in range(6):
            v = first_value + k
            if v < 62 and v in digits:
                i = digits.index(v)
                alias = list(name)
                alias[i] = chr(ord(start_char) + k)
                out.append("".join(alias))
    return out

def hostile_targets(rng, cache_names, real_files):
    a = "A" * 43
    some = cache_names[0] if cache_names else a
    t = [
        "/files/", "/files", "/files//", "/files/%s/" % some, "/files/%s/x" % some, "/files/%s%%2Fx" % some[:40],
        "/files/../current_file_states", "/files/..%2Fcurrent_file_states", "/files/%2e%2e%2fcurrent_file_states", "/files/%2e%2e/current_file_states",
        "/files/current_file_states", "/files/../../build.rules", "/files/..", "/files/.", "/files/%00" + some[3:], "/files/" + some[:42], "/files/" + some + "0",
        "/files/" + "Z" * 43, "/files/" + "z" * 10000, "/files/" + some[:21] + "-" + some[22:], "/files/" + some[:21] + "%41" + some[24:],
        "/files/" + some.lower() if some.lower() != some else "/files/" + some.upper(), "/files/" + "é" * 21 + "a", "/files/%C3%A9" + some[2:],
        "/cache/" + some, "/.ruler/cache/" + some, "//files/" + some, "/files/" + some + "?x=1#frag",
        "/rules", "/rules/", "/rules/" + a, "/rules/%s/" % a, "/rules/%s/%s/%s" % (a, a, a), "/rules/../history/" + a, "/rules/%s/../%s" % (a, a),
        "/rules/%s/%s" % (a, "short"), "/rules/%s/%s" % ("short", a), "/rules/%s/%s" % ("!" * 43, a), "/history/" + a, "/", "", "*",
        b"/files/\x00" + some.encode()[1:], b"/files/ " + some.encode()[1:], b"/files/\xff\xfe" + some.encode()[2:],
    ]
    for n in cache_names[:6]:
        for alias in alias_names(n)[:8]:
            t.append("/files/" + alias)
    for p in list(real_files)[:3]:
        t.append("/files/" + p)
        t.append("/" + p)
    for _ in range(10):
        n = rng.choice([0, 1, 20, 42, 43, 44, 60, 200])
        t.append("/files/" + "".join(rng.choice("abzAZ09_-.%/\\:") for _ in range(n)))
    return t

def one_case(ctx, case):
    seed = ctx["seed"]
    rng = random.Random(seed * 7919 + case)
    rules = realfs.random_graph(rng, 5)
    ws = realfs.Workspace("c19-%d-%d" % (seed, case), ctx["plain"])
    recs = []
    stats = {"evaluations": 0, "nontrivial": 0, "keys": [], "sample": None, "problems": [], "counts": {}}
    steps = []
    server = None
    def count(k, n=1):
        stats["counts"][k] = stats["counts"].get(k, 0) + n
    def bad(sig, what, extra=None):
        d = {"rules_file": "\n".join(r.text() for r in rules)[:1500], "history": steps}
        d.update(extra or {})
        recs.append(realfs.violation("C19", sig, what, d, case, seed, "server_check"))
    try:
        produced = {t for r in rules for t in r.targets}
        leaves = sorted({s for r in rules for s in r.sources if s not in produced})
        for l in leaves:
            ws.write(l, ws.fresh(l.replace("/", "_")))
        ws.write_rules(rules)
        seen_contents = {}     # target path -> set of hash names it ever held after a build
        def note():
            for t in produced:
                b = ws.read(t)
                if b is not None:
                    seen_contents.setdefault(t, set()).add(realfs.hash_name(b))
        # in some workspaces a directory sits where a rule's target will go (the project used to have a directory of
        # that name): ruler moves it into the cache under a hash name like any displaced target, and a request for
        # that name must be answered 404, since the cache holds no bytes under it
        if rng.random() < 0.3:
            t = rng.choice(sorted(produced))
            ws.write(t + "/old-%d.txt" % case, ws.fresh("olddir"))
            steps.append("directory at " + t)
        for _ in range(rng.randint(2, 6)):
            op = rng.choice(["build", "build", "edit", "clean", "revert", "goal"])
            if op == "edit":
                l = rng.choice(leaves); ws.write(l, ws.fresh("e")); steps.append("edit " + l)
            elif op == "revert":
                l = rng.choice(leaves); ws.write(l, ("%s-v1\n" % l.replace("/", "_")).encode()); steps.append("revert " + l)
            elif op == "clean":
                ws.run("clean"); steps.append("clean")
            elif op == "goal":
                g = rng.choice(sorted(produced)); ws.run("build", g); steps.append("build " + g); note()
            else:
                ws.run("build"); steps.append("build"); note()
        ws.run("build"); steps.append("build"); note()
        if rng.random() < 0.7:
            l = rng.choice(leaves); ws.write(l, ws.fresh("e")); ws.run("build"); steps.append("edit %s; build" % l); note()

        cache = ws.cache()
        histories = {}
        hdir = ws.path(".ruler/history")
        for n in os.listdir(hdir) if os.path.isdir(hdir) else []:
            p = os.path.join(hdir, n)
            if os.path.isfile(p) and not n.endswith(".tmp"):
                try:
                    histories[n] = br.read_rule_history(open(p, "rb").read())
                except br.Malformed as e:
                    stats["problems"].append("case %d: history file %s not decodable by the independent reader: %s" % (case, n, e))
        outside = {}
        for base, dirs, names in os.walk(ws.root):
            for n in names:
                p = os.path.join(base, n)
                rel = os.path.relpath(p, ws.root)
                if not (rel.startswith(".ruler/cache/") or rel.startswith(".ruler/history/")):
                    outside[rel] = open(p, "rb").read()

        port = free_port()
        server = subprocess.Popen([ctx["plain"], "serve", str(port)], cwd=ws.root, stdout=subprocess.DEVNULL, stderr=subprocess.DEVNULL)
        up = False
        for _ in range(600):
            try:
                socket.create_connection(("127.0.0.1", port), timeout=0.2).close()
                up = True
                break
            except OSError:
                time.sleep(0.05)
        if not up:
            stats["problems"].append("case %d: server did not come up" % case)
            return recs, stats
        def rescan():
            cache = ws.cache()
            histories = {}
            for n in os.listdir(hdir) if os.path.isdir(hdir) else []:
                p = os.path.join(hdir, n)
                if os.path.isfile(p) and not n.endswith(".tmp"):
                    try:
                        histories[n] = br.read_rule_history(open(p, "rb").read())
                    except br.Malformed:
                        pass
            return cache, histories
        nontrivial = len(cache) >= 1 and any(len(h) >= 1 for h in histories.values())
        def judged(cls):
            stats["evaluations"] += 1
            count("requests:" + cls)
            if nontrivial:
                stats["nontrivial"] += 1
                stats["keys"].append("%d:%d:%s:%d" % (seed, case, cls, stats["evaluations"]))

        # every cache entry
        for name, data in sorted(cache.items()):
            st, body = http_get(port, "/files/" + name)
            judged("cached-file")
            if st != 200 or body != data:
                bad("cached-file-not-served", "GET /files/%s returned %s with %d bytes; the cache holds %d bytes under that name" % (name, st, len(body), len(data)))
            elif realfs.hash_name(body) != name:
                bad("served-bytes-do-not-hash-to-name", "GET /files/%s returned bytes whose SHA-256 name is %s" % (name, realfs.hash_name(body)))
        # entries of the cache directory that are not files hold no bytes: 404
        cdir = ws.path(".ruler/cache")
        for name in sorted(os.listdir(cdir)) if os.path.isdir(cdir) else []:
            if os.path.isdir(os.path.join(cdir, name)):
                st, body = http_get(port, "/files/" + name)
                judged("cache-entry-that-is-a-directory")
                if st != 404:
                    bad("directory-entry-not-404", "GET /files/%s (a directory in the cache, moved there from a target path) returned %s %r" % (name, st, body[:80]))
        # absent but valid-looking
        for _ in range(8):
            name = realfs.hash_name(os.urandom(8) + str(rng.random()).encode())
            if name in cache:
                continue
            st, body = http_get(port, "/files/" + name)
            judged("absent-file")
            if st != 404:
                bad("absent-file-not-404", "GET /files/%s (not in the cache) returned %s" % (name, st))
        # every recorded pair
        by_identity = {r.identity(): r for r in rules}
        for rid, table in sorted(histories.items()):
            for src, targets in sorted(table.items()):
                st, body = http_get(port, "/rules/%s/%s" % (rid, src))
                judged("recorded-pair")
                if st != 200 or body.decode("utf-8", "replace") != "\n".join(targets):
                    bad("recorded-pair-not-served", "GET /rules/%s/%s returned %s %r; the history file records %r" % (rid, src, st, body[:200], targets))
                rule = by_identity.get(rid)
                if rule is not None:
                    count("pairs_mapped_to_a_rule")
                    for path, h in zip(sorted(rule.targets), targets):
                        if h not in seen_contents.get(path, set()):
                            bad("recorded-hash-is-not-a-hash-of-that-target", "the %s entry for %s is %s, which is not the SHA-256 of any content the driver saw at %s after a build" % (rid, path, h, path))
            # unknown source for a known rule, unknown rule
            st, _ = http_get(port, "/rules/%s/%s" % (rid, realfs.hash_name(b"nope" + rid.encode())))
            judged("unknown-pair")
            if st != 404:
                bad("unknown-pair-not-404", "an unrecorded sources hash for rule %s returned %s" % (rid, st))
        st, _ = http_get(port, "/rules/%s/%s" % (realfs.hash_name(b"x"), realfs.hash_name(b"y")))
        judged("unknown-pair")
        if st != 404:
            bad("unknown-pair-not-404", "an unknown rule returned %s" % st)

        # the ruler directory changes while the server runs: another build in the same workspace, then everything recorded
        # now must be served as it is now
        l = rng.choice(leaves)
        ws.write(l, ws.fresh("live"))
        ws.run("build"); steps.append("[server running] edit %s; build" % l); note()
        if rng.random() < 0.5:
            l2 = rng.choice(leaves); ws.write(l2, ("%s-v1\n" % l2.replace("/", "_")).encode()); ws.run("build"); steps.append("[server running] revert %s; build" % l2); note()
        cache, histories = rescan()
        for name, data in sorted(cache.items()):
            st, body = http_get(port, "/files/" + name)
            judged("cached-file-after-live-build")
            if st != 200 or body != data:
                bad("cached-file-not-served-after-live-build", "after a build performed while the server runs, GET /files/%s returned %s with %d bytes; the cache holds %d bytes" % (name, st, len(body), len(data)))
        for rid, table in sorted(histories.items()):
            for src, targets in sorted(table.items()):
                st, body = http_get(port, "/rules/%s/%s" % (rid, src))
                judged("recorded-pair-after-live-build")
                if st != 200 or body.decode("utf-8", "replace") != "\n".join(targets):
                    bad("recorded-pair-not-served-after-live-build", "after a build performed while the server runs, GET /rules/%s/%s returned %s %r; the history file records %r" % (rid, src, st, body[:200], targets))

        # malformed and hostile
        for target in hostile_targets(rng, sorted(cache), sorted(p for p in outside if not p.startswith(".ruler"))):
            raw = target if isinstance(target, bytes) else target.encode("utf-8")
            st, body = http_get(port, target)
            judged("hostile")
            valid_uri = len(raw) > 0 and raw.startswith(b"/") and all(c in VALID_URI_BYTES for c in raw)
            if st == 200:
                # a 200 is right only when the request names a cached hash: /files/<hash>, optionally followed by one '/'
                # (the router treats a trailing slash as the same resource) or by a query/fragment
                path_only = raw.split(b"?")[0].split(b"#")[0]
                seg = path_only[len(b"/files/"):] if path_only.startswith(b"/files/") else None
                if seg is not None and seg.endswith(b"/"):
                    seg = seg[:-1]
                ok = seg is not None and seg.decode("latin-1") in cache and body == cache[seg.decode("latin-1")]
                if not ok:
                    bad("unexpected-200", "request %r returned 200 with %d bytes although it does not name a cached hash" % (raw[:120], len(body)))
                else:
                    count("hostile_requests_that_legitimately_name_a_cached_hash")
                    continue
            elif valid_uri and st != 404:
                bad("malformed-name-not-404", "request %r returned %s instead of 404" % (raw[:120], st))
            elif not valid_uri and st not in (400, 404, None):
                bad("invalid-request-accepted", "request %r (not a valid request target) returned %s" % (raw[:120], st))
            # whatever the status, the body must never be the content of a file outside cache/ and history/
            for p, content in outside.items():
                if len(content) > 0 and body == content:
                    bad("file-outside-cache-served", "request %r returned the bytes of %s" % (raw[:100], p))
        # liveness
        if cache:
            name = sorted(cache)[0]
            st, body = http_get(port, "/files/" + name)
            judged("liveness")
            if st != 200 or body != cache[name]:
                bad("server-not-alive", "after the hostile requests GET /files/%s returned %s" % (name, st))
        if server.poll() is not None:
            bad("server-exited", "the server process exited with status %s" % server.returncode)
        if stats["sample"] is None:
            stats["sample"] = {"history": steps, "cache_entries": len(cache), "history_files": len(histories), "requests": stats["evaluations"]}
    except NoResponse as e:
        if server is not None and server.poll() is not None:
            bad("server-exited", "the server process exited with status %s (%s)" % (server.returncode, e))
        else:
            stats["problems"].append("case %d: %s (machine too loaded to judge; not a verdict)" % (case, e))
    except Exception as e:
        stats["problems"].append("case %d: driver error %r" % (case, e))
    finally:
        if server is not None:
            server.kill()
            server.wait()
        ws.close()
    return recs, stats

def run(ctx):
    n = ctx["stage"]["cases"][ctx["tier"]]
    t0 = time.time()
    recs, problems, keys, samples = [], [], [], []
    counts = {}
    ev = nt = 0
    with ThreadPoolExecutor(max_workers=ctx["nproc"]) as pool:
        for r, st in pool.map(lambda c: one_case(ctx, c), range(n)):
            recs += r[:3]
            problems += st["problems"]
            ev += st["evaluations"]; nt += st["nontrivial"]; keys += st["keys"]
            for k, v in st["counts"].items():
                counts[k] = counts.get(k, 0) + v
            if st["sample"] and len(samples) < 2:
                samples.append(st["sample"])
    recs.append({"type": "summary", "driver": "server_check", "prop": "C19", "shard": 0, "cases_run": n, "evaluations": ev, "nontrivial": nt,
                 "keys": keys, "counts": counts, "samples": samples, "violations": sum(1 for x in recs if x["type"] == "violation"),
                 "stopped_by_time_cap": False, "wall_ms": int((time.time() - t0) * 1000)})
    if len(problems) > max(2, n // 10):
        return recs, problems[:3]
    return recs, []

def replay(ctx):
    v = ctx["violation"]
    c = dict(seed=v["replay"]["seed"], plain=ctx["plain"])
    recs, st = one_case(c, v["replay"]["case"])
    for r in recs:
        print("REPLAYED:", r["signature"], "-", r["what"])
        print(json.dumps(r["detail"], indent=1)[:3000])
    if recs:
        print("VIOLATION property=C19 replay=(see above)")
        return 1
    print("replay did not reproduce")
    return 0
