HOOK_COMMITS = ["2c284ad", "7edcf66", "82e3c7f"]

HIST_NOTE = "trusted base: the in-memory System model (harness/vsys.rs), the reference evaluator and the 'vgen' command language (harness/model.rs), the scheduler shim in serial mode; coverage is what the generators reach"

META = {
    "C01": {"engine": "hist", "technique": "runtime monitor: final workspace vs reference from-scratch evaluation after every successful build of random histories",
            "text": "Exploration: thousands of random histories (edits, reverts, rule edits, goal builds, cleans, tampering, deletions of ruler state) drive the real build(); after every successful build each in-scope target is compared byte-for-byte with an independent from-scratch evaluation. Held-on-what-was-observed, not a proof.", "note": HIST_NOTE + "; clock model A (distinct mtimes)"},
    "C02": {"engine": "hist", "technique": "runtime monitor: command-execution log vs the harness's own record of earlier successful executions and a pre-build cache audit",
            "text": "Exploration: every build in random histories is checked for at-most-once execution, for 'must not run' obligations derived from the harness's own record and the cache contents before the build, and for no-op rebuilds touching nothing outside the ruler directory.", "note": HIST_NOTE},
    "C07": {"engine": "hist", "technique": "runtime monitor: audit of every cache entry with an independent SHA-256/base-62 after every invocation of random histories, after the final invocation of scenarios under explored schedules, and on the disk at every kill point of interrupted invocations",
            "text": "Exploration: after every build/clean of random histories (tampering, failing commands, deletions), after scenarios run under a seeded scheduler, and at every crash point of C11's enumeration, every cache entry is re-hashed with an independent hasher and compared with its name.", "note": HIST_NOTE},
    "C08": {"engine": "hist", "technique": "runtime monitor: content-set containment across each invocation plus online check of every ruler-issued rename/create destination; also under explored schedules and at every kill point of interrupted invocations",
            "text": "Exploration: for every invocation the set of byte strings at ever-declared target paths and in the cache before must be contained in the set after; every rename issued by ruler itself is checked online not to land on different bytes.", "note": HIST_NOTE},
    "C09": {"engine": "hist", "technique": "runtime monitor: online path check of every mutating System call issued by ruler, and before/after comparison of out-of-scope files",
            "text": "Exploration: goal-restricted builds and cleans over random graphs with decoy files; each mutating call ruler issues is checked against the model's scope, and out-of-scope files are compared (bytes, mtime, exec).", "note": HIST_NOTE},
    "C10": {"engine": "hist", "technique": "runtime monitor: post-clean listing and cache audit, then bytes/exec/command-log check of the following build",
            "text": "Exploration: build/clean/build sequences inside random histories on the in-memory System, and the same check with the built binary, shell commands and the real file system (listing, bytes, permission bits, status lines); thorough adds an informational valgrind memcheck stage on the real binary.", "note": HIST_NOTE + "; one known finding is listed in known_findings.json (permission of byte-identical twins)"},
    "C12": {"engine": "sort", "technique": "differential runtime check of the real sorter against an independent set-based reference; exhaustive up to 4 rules, random up to 40",
            "text": "Exploration with an exhaustive core: every directed graph on <=4 named rules (x every goal, single and two-target rules) plus random larger graphs is sorted by the real code and judged by the reference; order-independence by re-running with shuffled rules.", "note": "trusted base: the reference in harness/drivers/sortd.rs; inputs have parser-canonical list order"},
    "C20": {"engine": "hist", "technique": "runtime monitor: recorded Printer calls vs the System-call log of the same build, in random histories and under explored schedules",
            "text": "Exploration: in every build of random histories (serial and random schedules) each banner is compared with what the event log says happened to that target.", "note": HIST_NOTE},
}

SCHED_NOTE = "trusted base: the cooperative scheduler shim (only yields where real threads can be preempted), the in-memory System model, the reference evaluator; schedules are sampled, not enumerated"
META.update({
    "C03": {"engine": "sched", "technique": "runtime monitor under a seeded cooperative scheduler (and free-running stress): online readiness check at every command start, hash check of every channel hand-off",
            "text": "Exploration over schedules: the real build() runs on the in-memory System while a seeded scheduler (random walk / PCT / serial+preemptions) chooses the interleaving at every channel operation, thread start/finish and System call; monitors inside the System check readiness at command start and every ticket sent. Replayable by the choice list.", "note": SCHED_NOTE},
    "C04": {"engine": "sched", "technique": "runtime monitor: verdict/error list vs the model's failing set, online 'cancelled rule must not run', independent rules correct; across schedules and follow-up histories",
            "text": "Exploration over failure placements x schedules x follow-up histories, judged against the reference model's failing set.", "note": SCHED_NOTE},
    "C05": {"engine": "sched", "technique": "runtime monitor: logical deadlock detection by the scheduler (no runnable thread), bounded progress in scheduler steps, panic capture at thread/call boundaries, internal channel errors",
            "text": "Exploration over graphs x failure placements x schedules for build and clean; a hang is decided logically, never by wall clock.", "note": SCHED_NOTE},
    "C06": {"engine": "sched", "technique": "runtime monitor: confluence - same scenario under many schedules must give identical verdict and workspace bytes",
            "text": "Exploration: each scenario's final build is run under 30 (300 thorough) schedules from one snapshot, biased to states where threads meet in the cache (cleaned byte-identical twins); outcomes compared.  Corroborated on the real binary and file system under strace with a delay injected on every rename-family system call.", "note": SCHED_NOTE},
})

META.update({
    "C11": {"engine": "crash", "technique": "fault enumeration at runtime: snapshot before every file-system mutation (incl. torn writes) of an interrupted invocation, each audited and recovered from by the real build()",
            "text": "Fault enumeration: within one interrupted build/clean every kill point (every mutation index, three torn variants per write) is materialised as a disk snapshot from a single recorded execution; each is audited (cache content-addressed, nothing lost) and the real build() must recover from it and then behave normally. Scenarios and schedules are sampled.", "note": "trusted base: VSys's crash model (prefix of completed mutations, byte-granular torn writes, atomic command outputs), the reference evaluator"},
    "C17": {"engine": "contra", "technique": "runtime monitor: forced re-execution with a changed undeclared input; error list, decoded history record and follow-up build compared with expectations",
            "text": "Exploration over graphs, choice of irreproducible rule, every subset of its outputs, forcing method (delete/tamper) and repetition.", "note": HIST_NOTE},
    "C18": {"engine": "pair", "technique": "differential runtime monitor: the same history with and without the file-state table under two clock models, plus hash check of every hand-off",
            "text": "Exploration: paired lock-step histories (as is / table erased before each build) under a distinct-mtime clock and a one-tick-per-invocation clock; any difference in verdict or bytes, or a stale hash handed to a dependent, is a violation.", "note": HIST_NOTE},
})

PURE_NOTE = "trusted base: the reference written in the driver; inputs are generated, not enumerated"
META.update({
    "C13": {"engine": "ident", "technique": "differential runtime check: identity equality vs canonical-form equality on generated near-miss pairs, also through the real parser and the sorter; exhaustive pairwise distinctness over a universe of 93 312 small rules",
            "text": "Exploration over adversarial near-miss pairs of rules.", "note": PURE_NOTE},
    "C14": {"engine": "parse", "technique": "differential runtime check of the real parser against a reference reading of the format, under catch_unwind",
            "text": "Exploration: rendered rule sets, corruptions and soups go through the real parser and a separately written reference; results and error (kind, file, line) must match; panics are violations.  Thorough repeats a sample under Miri.", "note": PURE_NOTE},
    "C15": {"engine": "hash", "technique": "differential runtime check: ruler's hashes and text codec vs Python hashlib and independent base-62 implementations; `ruler hash` of the built binary on real files and directory trees",
            "text": "Exploration over byte strings (all lengths around the read buffer, read through short-read handles), 256-bit values, candidate strings and directory trees; exported cases are re-checked with hashlib; thorough repeats the codec part under Miri.", "note": "trusted base: Python hashlib; independent base-62 in Python and Rust"},
    "C16": {"engine": "codec", "technique": "runtime round-trip and damage injection on ruler's own state-file writers/readers; independent bincode layout reader",
            "text": "Exploration over generated state files and systematic damage (all prefixes, all single bit flips of small images, random bytes); a process abort is a violation; thorough repeats a sample under Miri.", "note": PURE_NOTE},
})

META.update({
    "C19": {"engine": "server", "technique": "runtime monitor: raw-socket HTTP client against the built binary's server vs an independent decoding of the ruler directory",
            "text": "Exploration over ruler directories from random real-FS histories and over request classes including hostile request targets; the oracle is hashlib plus an independent bincode reader.", "note": "trusted base: Python hashlib, pytools/bincode_reader.py; loopback only"},
})

NOT_APPLICABLE = []
