"""C15 on the built binary: `ruler hash <path>` on the real file system.

Files: the printed name must be the base-62 form of hashlib's SHA-256 of the bytes, whatever the size (around the
256-byte read buffer and the page size), the path and the age of the file.  Directories: the printed name is stable
while nothing changes and changes with every single-point change (a content, a name, an added or removed file, an
added or removed empty sub-directory, at any depth); undoing the change brings the old name back."""
import os, random, shutil, subprocess, time
from concurrent.futures import ThreadPoolExecutor

import realfs

SIZES = [0, 1, 2, 31, 32, 33, 55, 56, 63, 64, 65, 119, 120, 127, 128, 255, 256, 257, 511, 512, 513, 1023, 1024, 1025,
         4095, 4096, 4097, 8191, 8192, 8193, 12288, 16384, 65535, 65536, 65537, 131072]

def ruler_hash(ctx, cwd, path):
    p = subprocess.run([ctx["plain"], "hash", path], cwd=cwd, stdout=subprocess.PIPE, stderr=subprocess.PIPE, timeout=60)
    return p.returncode, p.stdout.decode("utf-8", "replace").strip(), p.stderr.decode("utf-8", "replace").strip()

def make_tree(rng, root, depth=0):
    """random directory tree; returns the list of relative file paths and the list of relative directory paths"""
    files, dirs = [], []
    def fill(rel, d):
        n_files = rng.randint(0 if d > 0 else 1, 3)
        for i in range(n_files):
            name = rng.choice(["a", "b.txt", "c c", "zz", "0", "é", "data.bin", "x-1", ".hidden", ".config", "..data"]) + (str(i) if rng.random() < 0.5 else "")
            p = os.path.join(rel, name)
            if p in files:
                continue
            data = bytes(rng.getrandbits(8) for _ in range(rng.choice([0, 1, 5, 256, 300])))
            os.makedirs(os.path.join(root, rel), exist_ok=True)
            with open(os.path.join(root, p), "wb") as f:
                f.write(data)
            files.append(p)
        if d < 3:
            for i in range(rng.randint(0, 2)):
                sub = os.path.join(rel, rng.choice(["sub", "d", "e e", "inner", ".git", ".cache"]) + str(i))
                os.makedirs(os.path.join(root, sub), exist_ok=True)
                dirs.append(sub)
                if rng.random() < 0.75:
                    fill(sub, d + 1)
    os.makedirs(root, exist_ok=True)
    fill("", 0)
    return files, dirs

def one_case(ctx, case):
    seed = ctx["seed"]
    rng = random.Random(seed * 104729 + case)
    tag = "c15-%d-%d" % (seed, case)
    root = os.path.join(realfs.WORK, tag)
    shutil.rmtree(root, ignore_errors=True)
    os.makedirs(root)
    recs = []
    stats = {"evaluations": 0, "nontrivial": 0, "keys": [], "sample": None, "problems": [], "counts": {}}
    def count(k, n=1):
        stats["counts"][k] = stats["counts"].get(k, 0) + n
    def judged(cls, key):
        stats["evaluations"] += 1
        stats["nontrivial"] += 1
        stats["keys"].append("%s:%s" % (cls, key))
        count("judged:" + cls)
    def bad(sig, what, extra=None):
        recs.append(realfs.violation("C15", sig, what, extra or {}, case, seed, "hash_cli"))
    try:
        # files
        sizes = [SIZES[(case * 5 + i) % len(SIZES)] for i in range(5)] + [rng.randint(0, 300000) for _ in range(2)]
        for i, size in enumerate(sizes):
            data = bytes(rng.getrandbits(8) for _ in range(min(size, 4096))) * (size // 4096 + 1)
            data = data[:size]
            want = realfs.hash_name(data)
            names = ["f%d" % i, os.path.join("deep", "er", "copy of f%d.bin" % i)]
            for j, rel in enumerate(names):
                os.makedirs(os.path.dirname(os.path.join(root, rel)) or root, exist_ok=True)
                with open(os.path.join(root, rel), "wb") as f:
                    f.write(data)
                if j == 1:
                    old = time.time() - rng.randint(1, 10 ** 8)
                    os.utime(os.path.join(root, rel), (old, old))
                # relative paths only: ruler's System addresses files relative to the working directory (an absolute path is
                # answered "No such file or directory", which is a refusal, not a hash)
                rc, out, err = ruler_hash(ctx, root, rel)
                judged("file", "%d:%s" % (size, want[:12]))
                if out != want:
                    bad("cli-file-hash-is-not-sha256", "`ruler hash` of a %d-byte file printed %r (stderr %r); SHA-256 of the bytes is %s" % (size, out[:80], err[:120], want),
                        {"size": size, "path": rel})
        # directories
        droot = os.path.join(root, "tree")
        files, dirs = make_tree(rng, droot)
        rc, h0, err = ruler_hash(ctx, root, "tree")
        judged("directory-stable", h0[:12])
        if len(h0) != 43:
            bad("cli-directory-hash-missing", "`ruler hash tree` printed %r (stderr %r)" % (h0[:80], err[:120]))
        else:
            rc, again, _ = ruler_hash(ctx, root, "tree")
            if again != h0:
                bad("cli-directory-hash-unstable", "hashing the same directory twice gave %s and %s" % (h0, again))
            for _ in range(4):
                kinds = ["add-file", "add-empty-dir"]
                if files:
                    kinds += ["edit-content", "rename-file", "remove-file"]
                kind = rng.choice(kinds)
                undo = None
                where = rng.choice([""] + dirs)
                if kind == "add-file":
                    p = os.path.join(droot, where, "new-file")
                    open(p, "wb").write(b"n")
                    undo = lambda p=p: os.remove(p)
                elif kind == "add-empty-dir":
                    p = os.path.join(droot, where, "new-dir")
                    os.makedirs(p)
                    undo = lambda p=p: os.rmdir(p)
                elif kind == "edit-content":
                    p = os.path.join(droot, rng.choice(files))
                    old = open(p, "rb").read()
                    new = old + b"!" if rng.random() < 0.5 or not old else bytes([old[0] ^ 1]) + old[1:]
                    open(p, "wb").write(new)
                    undo = lambda p=p, old=old: open(p, "wb").write(old)
                elif kind == "rename-file":
                    p = os.path.join(droot, rng.choice(files))
                    q = p + "~"
                    os.rename(p, q)
                    undo = lambda p=p, q=q: os.rename(q, p)
                else:
                    p = os.path.join(droot, rng.choice(files))
                    old = open(p, "rb").read()
                    os.remove(p)
                    undo = lambda p=p, old=old: open(p, "wb").write(old)
                rc, h1, err = ruler_hash(ctx, root, "tree")
                judged("directory-change:" + kind, "%s:%s" % (h0[:8], h1[:8]))
                if h1 == h0:
                    bad("cli-directory-hash-insensitive:" + kind, "after %s under tree/%s `ruler hash tree` still prints %s" % (kind, where, h0), {"files": files[:20], "dirs": dirs[:20]})
                undo()
                rc, h2, err = ruler_hash(ctx, root, "tree")
                judged("directory-undo", "%s:%s" % (h0[:8], kind))
                if h2 != h0:
                    bad("cli-directory-hash-not-a-function-of-the-tree", "after undoing %s `ruler hash tree` prints %s, before the change it printed %s" % (kind, h2, h0))
        if stats["sample"] is None:
            stats["sample"] = {"file_sizes": sizes, "tree_files": len(files), "tree_dirs": len(dirs)}
    except Exception as e:
        stats["problems"].append("case %d: driver error %r" % (case, e))
    finally:
        shutil.rmtree(root, ignore_errors=True)
    return recs, stats

def run(ctx):
    n = ctx["stage"]["cases"][ctx["tier"]]
    t0 = time.time()
    recs, problems, keys, samples = [], [], [], []
    counts = {}
    ev = nt = 0
    with ThreadPoolExecutor(max_workers=ctx["nproc"]) as pool:
        for r, st in pool.map(lambda c: one_case(ctx, c), range(n)):
            recs += r[:3]
            problems += st["problems"]
            ev += st["evaluations"]; nt += st["nontrivial"]; keys += st["keys"]
            for k, v in st["counts"].items():
                counts[k] = counts.get(k, 0) + v
            if st["sample"] and len(samples) < 2:
                samples.append(st["sample"])
    recs.append({"type": "summary", "driver": "hash_cli", "prop": "C15", "shard": 0, "cases_run": n, "evaluations": ev, "nontrivial": nt,
                 "keys": keys, "counts": counts, "samples": samples, "violations": sum(1 for x in recs if x["type"] == "violation"),
                 "stopped_by_time_cap": False, "wall_ms": int((time.time() - t0) * 1000)})
    if len(problems) > max(2, n // 10):
        return recs, problems[:3]
    return recs, []

def replay(ctx):
    import json
    v = ctx["violation"]
    c = dict(seed=v["replay"]["seed"], plain=ctx["plain"])
    recs, st = one_case(c, v["replay"]["case"])
    for r in recs:
        print("REPLAYED:", r["signature"], "-", r["what"])
        print(json.dumps(r["detail"], indent=1)[:3000])
    if recs:
        print("VIOLATION property=C15 replay=(see above)")
        return 1
    print("replay did not reproduce")
    return 0
