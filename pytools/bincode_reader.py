"""Independent reader of ruler's two state-file formats (bincode 1.x, fixed-width little-endian integers).

  rule history  := u64 n, n x ( 32 bytes source hash, u64 m, m x file_state )
  file states   := u64 n, n x ( u64 len, len bytes utf-8 path, file_state )
  file_state    := 32 bytes hash, u64 timestamp (microseconds), u8 executable (0/1)

Written from the type definitions, not from ruler's code paths; used by the C16 layout cross-check and by C19."""
import struct

ALPHABET = "0123456789abcdefghijklmnopqrstuvwxyzABCDEFGHIJKLMNOPQRSTUVWXYZ"

def base62(raw32):
    n = int.from_bytes(raw32, "little")
    digits = []
    while n > 0:
        digits.append(ALPHABET[n % 62])
        n //= 62
    while len(digits) < 43:
        digits.append("0")
    return "".join(digits)

def unbase62(text):
    if len(text) != 43 or any(c not in ALPHABET for c in text):
        return None
    n = 0
    for c in reversed(text):
        n = n * 62 + ALPHABET.index(c)
    if n >= 1 << 256:
        return None
    return n.to_bytes(32, "little")

class Malformed(Exception):
    pass

class Cursor:
    def __init__(self, data):
        self.data = data
        self.pos = 0
    def take(self, n):
        if n < 0 or self.pos + n > len(self.data):
            raise Malformed("unexpected end at %d (+%d of %d)" % (self.pos, n, len(self.data)))
        b = self.data[self.pos:self.pos + n]
        self.pos += n
        return b
    def u64(self):
        return struct.unpack("<Q", self.take(8))[0]
    def done(self):
        if self.pos != len(self.data):
            raise Malformed("trailing bytes: %d of %d consumed" % (self.pos, len(self.data)))

def file_state(c):
    h = c.take(32)
    ts = c.u64()
    x = c.take(1)[0]
    if x not in (0, 1):
        raise Malformed("bool byte %d" % x)
    return {"hash": base62(h), "timestamp": ts, "executable": bool(x)}

def read_rule_history(data):
    """returns {source hash text: [target hash text, ...]} (insertion order of the file)"""
    c = Cursor(data)
    out = {}
    for _ in range(c.u64()):
        key = base62(c.take(32))
        states = [file_state(c) for _ in range(c.u64())]
        out[key] = [s["hash"] for s in states]
    c.done()
    return out

def read_file_states(data):
    c = Cursor(data)
    out = {}
    for _ in range(c.u64()):
        n = c.u64()
        path = c.take(n).decode("utf-8")
        out[path] = file_state(c)
    c.done()
    return out
