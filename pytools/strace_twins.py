"""C06 corroboration on the real binary and the real file system: after `clean`, byte-identical targets of
independent rules share one cache entry; `ruler build` is then run under strace with a delay injected on entry to
every rename-family system call, which widens the window between the cache's existence check and its rename.
Every run must succeed and leave the same bytes, whichever thread wins."""
import os, random, subprocess, time, json, shutil
from concurrent.futures import ThreadPoolExecutor
import realfs

def twin_rules(rng):
    n = rng.choice([2, 2, 3, 4])
    names = ["a", "b", "out/c", "gen/d"][:n]
    leaves = ["s1", "s2", "src/u", "src/v"][:n]
    return [(t, s) for t, s in zip(names, leaves)]

def rules_text(pairs, dependent):
    parts = []
    for t, s in pairs:
        parts.append("%s\n:\n%s\n:\ncat\n%s\n>\n%s\n:\n" % (t, s, s, t))
    if dependent:
        srcs = "\n".join(t for t, _ in pairs)
        parts.append("all\n:\n%s\n:\ncat\n%s\n>\nall\n:\n" % (srcs, srcs))
    return "\n".join(parts)

def one_case(ctx, case):
    seed = ctx["seed"]
    rng = random.Random(seed * 31337 + case)
    ws = realfs.Workspace("c06-%d-%d" % (seed, case), ctx["plain"])
    recs, stats = [], {"evaluations": 0, "nontrivial": 0, "keys": [], "sample": None, "problems": [], "counts": {}}
    try:
        pairs = twin_rules(rng)
        dependent = rng.random() < 0.5
        content = ("twin-%d\n" % case).encode()
        for _, s in pairs:
            ws.write(s, content)
        ws.write("build.rules", rules_text(pairs, dependent).encode())
        delay = rng.choice([2000, 10000, 20000, 40000])
        wrapper = ["strace", "-f", "-o", "/dev/null", "-e", "trace=rename,renameat,renameat2", "-e", "inject=rename,renameat,renameat2:delay_enter=%d" % delay]
        outcomes = set()
        for rep in range(ctx["reps"]):
            b0 = ws.run("build")
            c = ws.run("clean")
            if b0["err"].strip() or c["err"].strip():
                stats["problems"].append("case %d: preparation failed: %s %s" % (case, b0["err"][:100], c["err"][:100]))
                return recs, stats
            entries = ws.cache()
            r = ws.run("build", wrapper=wrapper, timeout=300)
            if "strace:" in r["err"] and ("ptrace" in r["err"] or "Operation not permitted" in r["err"] or "No such file" in r["err"]):
                stats["counts"]["strace_unavailable"] = 1
                return recs, stats
            stats["evaluations"] += 1
            contents = tuple(sorted((t, ws.read(t)) for t, _ in pairs))
            ok = not r["err"].strip() and all(ws.read(t) == content for t, _ in pairs)
            outcomes.add((bool(r["err"].strip()), contents))
            kinds = tuple(sorted(k for k, _ in r["banners"]))
            stats["counts"]["runs_with_banners:" + ",".join(kinds)] = stats["counts"].get("runs_with_banners:" + ",".join(kinds), 0) + 1
            if not ok:
                sig = "real-fs:cache-race-CacheMalfunction" if "cache" in r["err"].lower() else "real-fs:build-after-clean-of-twins-failed"
                recs.append(realfs.violation("C06", sig, "ruler build after cleaning %d byte-identical targets (one shared cache entry of %d) printed %r and left %r" % (len(pairs), len(entries), r["err"].strip()[:300], contents),
                                             {"rules_file": rules_text(pairs, dependent), "rename_delay_us": delay, "repetition": rep}, case, seed, "strace_twins"))
                return recs, stats
        stats["nontrivial"] += 1
        stats["keys"].append("%d:%d" % (seed, case))
        if len(outcomes) > 1:
            recs.append(realfs.violation("C06", "real-fs:schedule-dependent", "repeated builds of the same cleaned-twins workspace ended differently: %r" % list(outcomes)[:2], {"rules_file": rules_text(pairs, dependent)}, case, seed, "strace_twins"))
        stats["sample"] = {"rules_file": rules_text(pairs, dependent), "rename_delay_us": delay, "repetitions": ctx["reps"]}
    except subprocess.TimeoutExpired:
        stats["problems"].append("case %d: a run under strace exceeded the watchdog" % case)
    except Exception as e:
        stats["problems"].append("case %d: driver error %r" % (case, e))
    finally:
        ws.close()
    return recs, stats

def run(ctx):
    n = ctx["stage"]["cases"][ctx["tier"]]
    ctx = dict(ctx, reps=ctx["stage"]["reps"][ctx["tier"]])
    t0 = time.time()
    if shutil.which("strace") is None:
        return [{"type": "summary", "driver": "strace_twins", "prop": "C06", "shard": 0, "cases_run": 0, "evaluations": 0, "nontrivial": 0, "keys": [], "counts": {"strace_unavailable": 1}, "samples": [], "violations": 0, "stopped_by_time_cap": False, "wall_ms": 0}], []
    recs, problems, keys, samples = [], [], [], []
    counts = {}
    ev = nt = 0
    with ThreadPoolExecutor(max_workers=max(2, ctx["nproc"] // 2)) as pool:
        for r, st in pool.map(lambda c: one_case(ctx, c), range(n)):
            recs += r
            problems += st["problems"]
            ev += st["evaluations"]; nt += st["nontrivial"]; keys += st["keys"]
            for k, v in st["counts"].items():
                counts[k] = counts.get(k, 0) + v
            if st["sample"] and len(samples) < 1:
                samples.append(st["sample"])
    counts["real_binary_runs_under_strace"] = ev
    recs.append({"type": "summary", "driver": "strace_twins", "prop": "C06", "shard": 0, "cases_run": n, "evaluations": ev, "nontrivial": nt,
                 "keys": keys, "counts": counts, "samples": samples, "violations": sum(1 for x in recs if x["type"] == "violation"),
                 "stopped_by_time_cap": False, "wall_ms": int((time.time() - t0) * 1000)})
    if len(problems) > max(2, n // 5):
        return recs, problems[:3]
    return recs, []

def replay(ctx):
    v = ctx["violation"]
    c = dict(seed=v["replay"]["seed"], plain=ctx["plain"], reps=20)
    recs, st = one_case(c, v["replay"]["case"])
    for r in recs:
        print("REPLAYED:", r["signature"], "-", r["what"])
    if recs:
        print("VIOLATION property=C06 replay=(see above)")
        return 1
    print("replay did not reproduce (the race is timing dependent on the real file system)")
    return 0
