"""Real-binary, real-file-system helpers: scratch workspaces under /verif/work, rule graphs with shell commands,
a Python reference model of what the commands produce, ANSI-stripped status lines."""
import os, re, shutil, subprocess, random, hashlib, time

import bincode_reader as br

VERIF = os.path.dirname(os.path.dirname(os.path.abspath(__file__)))
WORK = os.path.join(VERIF, "work" + ("-" + os.environ["VERIF_WORK_SUFFIX"] if os.environ.get("VERIF_WORK_SUFFIX") else ""))
ANSI = re.compile(r"\x1b\[[0-9;]*m")

def hash_name(data):
    return br.base62(hashlib.sha256(data).digest())

def rule_identity(targets, sources, command_lines):
    """ruler's documented rule identity: sorted targets, sorted sources, command lines, each followed by newline,
    sections closed by newline-colon-newline"""
    h = hashlib.sha256()
    for t in sorted(targets):
        h.update(t.encode() + b"\n")
    h.update(b"\n:\n")
    for s in sorted(sources):
        h.update(s.encode() + b"\n")
    h.update(b"\n:\n")
    for c in command_lines:
        h.update(c.encode() + b"\n")
    h.update(b"\n:\n")
    return br.base62(h.digest())

class Rule:
    def __init__(self, targets, sources, exec_targets=()):
        self.targets = list(targets)
        self.sources = list(sources)
        self.exec_targets = set(exec_targets)

    def command_lines(self):
        lines = []
        for k, t in enumerate(self.targets):
            if k > 0:
                lines.append(";")
            # (echo <target>; cat sources) > target     -- each target's bytes name the target, so contents are pairwise distinct
            lines += ["(echo", "%s;" % t, "cat"] + self.sources + [")", ">", t]
            if t in self.exec_targets:
                lines += [";", "chmod", "+x", t]
        return lines

    def text(self):
        return "\n".join(self.targets) + "\n:\n" + "\n".join(self.sources) + "\n:\n" + "\n".join(self.command_lines()) + "\n:\n"

    def identity(self):
        return rule_identity(self.targets, self.sources, self.command_lines())

def random_graph(rng, max_rules=6):
    names = ["a", "b", "c", "d", "e", "f", "out/a", "out/b", "gen/x", "gen/y", "bin/t"]
    leaves = ["s1", "s2", "s3", "src/u", "src/v"]
    rng.shuffle(names)
    n = rng.randint(1, max_rules)
    rules = []
    produced = []
    idx = 0
    for _ in range(n):
        nt = rng.choice([1, 1, 1, 2])
        targets = names[idx:idx + nt]
        idx += nt
        if not targets:
            break
        k = rng.randint(1, 3)
        sources = []
        for _ in range(k):
            s = rng.choice(produced) if produced and rng.random() < 0.6 else rng.choice(leaves)
            if s not in sources:
                sources.append(s)
        ex = [t for t in targets if rng.random() < 0.3]
        rules.append(Rule(targets, sources, ex))
        produced += targets
    rng.shuffle(rules)
    return rules

def evaluate(rules, files, goal=None):
    """from-scratch contents: target -> bytes, and the set of rules in scope"""
    producer = {}
    for r in rules:
        for t in r.targets:
            producer[t] = r
    scope = []
    def visit(r):
        if r in scope:
            return
        for s in r.sources:
            if s in producer:
                visit(producer[s])
        scope.append(r)
    if goal is None:
        for r in rules:
            visit(r)
    else:
        visit(producer[goal])
    out = {}
    for r in scope:
        body = b""
        for s in r.sources:
            body += out[s] if s in out else files[s]
        for t in r.targets:
            out[t] = t.encode() + b"\n" + body
    return out, scope

class Workspace:
    def __init__(self, tag, ruler):
        self.root = os.path.join(WORK, tag)
        shutil.rmtree(self.root, ignore_errors=True)
        os.makedirs(self.root)
        for d in ["out", "gen", "bin", "src"]:
            os.makedirs(os.path.join(self.root, d))
        self.ruler = ruler
        self.counter = 0

    def close(self):
        shutil.rmtree(self.root, ignore_errors=True)

    def path(self, p):
        return os.path.join(self.root, p)

    def write(self, p, data):
        os.makedirs(os.path.dirname(self.path(p)), exist_ok=True)
        with open(self.path(p), "wb") as f:
            f.write(data)

    def read(self, p):
        try:
            with open(self.path(p), "rb") as f:
                return f.read()
        except (FileNotFoundError, IsADirectoryError):
            return None

    def fresh(self, tag):
        """unique content; every other one is not valid UTF-8 (object files, images ... are what build tools cache)"""
        self.counter += 1
        text = ("%s-v%d\n" % (tag, self.counter)).encode()
        if self.counter % 2 == 0:
            return b"\x7fELF\xff\xfe\x00\x80" + text + bytes([0xc3, 0x28, self.counter % 256])
        return text

    def write_rules(self, rules):
        self.write("build.rules", "\n".join(r.text() for r in rules).encode())

    def files(self):
        """every regular file outside .ruler: path -> bytes"""
        out = {}
        for base, dirs, names in os.walk(self.root):
            rel = os.path.relpath(base, self.root)
            if rel == ".ruler" or rel.startswith(".ruler" + os.sep):
                continue
            for n in names:
                p = os.path.normpath(os.path.join(rel, n))
                out[p] = open(os.path.join(base, n), "rb").read()
        return out

    def cache(self):
        d = self.path(".ruler/cache")
        out = {}
        if os.path.isdir(d):
            for n in os.listdir(d):
                p = os.path.join(d, n)
                if os.path.isfile(p):
                    out[n] = open(p, "rb").read()
        return out

    def run(self, *args, timeout=120, wrapper=None):
        cmd = (wrapper or []) + [self.ruler] + list(args)
        p = subprocess.run(cmd, cwd=self.root, stdout=subprocess.PIPE, stderr=subprocess.PIPE, timeout=timeout)
        out = ANSI.sub("", p.stdout.decode("utf-8", "replace"))
        err = ANSI.sub("", p.stderr.decode("utf-8", "replace"))
        banners = []
        for line in out.splitlines():
            m = re.match(r"^\s*(Built|Recovered|Up-to-date|Outdated|Downloaded): (.*)$", line)
            if m:
                banners.append((m.group(1), m.group(2)))
        return {"rc": p.returncode, "out": out, "err": err, "banners": banners}

    def is_exec(self, p):
        try:
            return os.stat(self.path(p)).st_mode & 0o111 != 0
        except FileNotFoundError:
            return None

def violation(prop, signature, what, detail, case, seed, module):
    return {"type": "violation", "property": prop, "signature": signature, "what": what, "detail": detail,
            "replay": {"driver": module, "prop": prop, "seed": seed, "shard": 0, "shards": 1, "tier": "quick", "case": case}}
