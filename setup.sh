#!/bin/bash
# setup_cmd: build the hook-enabled test binary and the plain ruler binary into /verif/target (offline).
set -e
cd "$(dirname "$0")"
export CARGO_NET_OFFLINE=true CARGO_TARGET_DIR=/verif/target
cargo test --manifest-path /repo/Cargo.toml --features verif --no-run --offline
cargo build --manifest-path /repo/Cargo.toml --offline
mkdir -p /verif/out /verif/evidence /verif/work
echo "setup done"
