#!/bin/bash
# usage: run_thorough.sh <seed> [IDs...]  -- every registered check in the thorough tier, one after the other; one line per check
seed=$1; shift
ids=${@:-C01 C02 C03 C04 C05 C06 C07 C08 C09 C10 C11 C12 C13 C14 C15 C16 C17 C18 C19 C20}
cd /verif
for p in $ids; do
  start=$(date +%s)
  out=$(VERIF_SEED=$seed ./check $p --tier thorough 2>&1 | grep -v "^KNOWN-FINDING" | tail -3 | tr '\n' ' ' | cut -c1-500)
  echo "seed=$seed $p $(( $(date +%s) - start ))s :: $out"
done
